//! The reward scenario: bSei token operations, reward deliveries and claims on the integrated
//! deployment. Serves C14 (solvency / completeness), C15 (proportional, independent accrual:
//! reference ledger, frame oracle, commutation diamonds, split-account product) and C16 (mirror).
use crate::actions::*;
use crate::chain::*;
use crate::deploy::*;
use crate::explore::*;
use crate::obs::*;
use basset::reward::{HolderResponse, HoldersResponse, QueryMsg as RQ, StateResponse as RState};
use cosmwasm_std::Uint256;
use sha2::{Digest, Sha256};
use std::collections::BTreeMap;

#[derive(Clone, Default)]
pub struct Arm {
    pub c14: bool,
    pub c15: bool,
    pub c16: bool,
    pub diamonds: bool,
}

#[derive(Clone)]
pub struct Reward {
    pub label: String,
    pub arm: Arm,
    pub users: Vec<&'static str>,
    pub bond_amounts: Vec<u128>,
    pub rewards: Vec<u128>,
    pub with_allowance: bool,
    pub with_sink: bool,
    pub with_hub_ops: bool,
    pub seeds: Vec<&'static str>,
    /// product mode (C15 iv): second chain in the ghost where alice's holding is split with dave
    pub split: Option<(u128, u128)>,
}

impl Reward {
    pub fn base(label: &str) -> Reward {
        Reward {
            label: label.into(),
            arm: Arm::default(),
            users: vec![ALICE, BOB],
            bond_amounts: vec![3],
            rewards: vec![7, 1000],
            with_allowance: false,
            with_sink: false,
            with_hub_ops: true,
            seeds: vec!["holders"],
            split: None,
        }
    }
}

#[derive(Clone, Debug)]
pub struct RObs {
    pub state: RState,
    pub holders: BTreeMap<String, HolderResponse>,
    pub token_bal: BTreeMap<String, u128>,
    pub supply: u128,
    pub bank: u128,
    pub accrued_query: BTreeMap<String, Result<u128, String>>,
}

pub fn all_holders(c: &Chain) -> BTreeMap<String, HolderResponse> {
    let mut out = BTreeMap::new();
    let mut start: Option<String> = None;
    loop {
        let r: HoldersResponse = c.query(REWARD, &RQ::Holders { start_after: start.clone(), limit: Some(30) }).expect("holders");
        let n = r.holders.len();
        for h in r.holders {
            start = Some(h.address.clone());
            out.insert(h.address.clone(), h);
        }
        if n < 30 {
            break;
        }
    }
    out
}

pub fn all_accounts(c: &Chain, tok: &str) -> Vec<String> {
    let mut out = vec![];
    let mut start: Option<String> = None;
    loop {
        let r: cw20::AllAccountsResponse = c.query(tok, &cw20::Cw20QueryMsg::AllAccounts { start_after: start.clone(), limit: Some(30) }).expect("accounts");
        let n = r.accounts.len();
        for a in r.accounts {
            start = Some(a.clone());
            out.push(a);
        }
        if n < 30 {
            break;
        }
    }
    out
}

impl RObs {
    pub fn new(c: &Chain) -> RObs {
        let holders = all_holders(c);
        let mut token_bal = BTreeMap::new();
        for a in all_accounts(c, BSEI) {
            token_bal.insert(a.clone(), token_bal_of(c, &a));
        }
        for a in HOLDERS {
            token_bal.entry(a.to_string()).or_insert_with(|| token_bal_of(c, a));
        }
        let mut accrued_query = BTreeMap::new();
        for a in holders.keys() {
            let r: Result<basset::reward::AccruedRewardsResponse, String> = c.query(REWARD, &RQ::AccruedRewards { address: a.clone() });
            accrued_query.insert(a.clone(), r.map(|x| x.rewards.u128()));
        }
        RObs { state: c.query(REWARD, &RQ::State {}).expect("reward state"), holders, token_bal, supply: token_supply(c, BSEI), bank: c.bal(REWARD, KUSD), accrued_query }
    }
    /// exact accrued reward of a holder in 1e-18 units: pending + (global - index) * balance
    pub fn accrued_fp(&self, a: &str) -> Uint256 {
        match self.holders.get(a) {
            None => Uint256::zero(),
            Some(h) => {
                let g = Uint256::from(self.state.global_index.atomics());
                let i = Uint256::from(h.index.atomics());
                let d = if g >= i { g - i } else { Uint256::zero() };
                Uint256::from(h.pending_rewards.atomics()) + d * Uint256::from(h.balance)
            }
        }
    }
    pub fn total_accrued_fp(&self) -> Uint256 {
        self.holders.keys().fold(Uint256::zero(), |acc, a| acc + self.accrued_fp(a))
    }
}
fn token_bal_of(c: &Chain, a: &str) -> u128 {
    token_bal(c, BSEI, a)
}

#[derive(Clone, Debug, Default)]
pub struct G {
    pub updates: u64,
    pub steps: u64,
    pub delivered: u128,
    pub claimed: u128,
    /// reference ledger (1e-18 units): lower / upper bound of what each holder has earned so far
    pub ref_lo: BTreeMap<String, u128>,
    pub ref_hi: BTreeMap<String, u128>,
    /// whole units already claimed per holder
    pub claimed_by: BTreeMap<String, u128>,
    /// reward coins delivered while nobody held bSei: they belong to the next distribution
    pub undistributed: u128,
    pub second: Option<Chain>,
}

fn u256(x: u128) -> Uint256 {
    Uint256::from(x)
}
fn one256() -> Uint256 {
    Uint256::from(ONE)
}

impl Scenario for Reward {
    type G = G;
    type O = RObs;
    fn name(&self) -> String {
        format!("reward/{}", self.label)
    }
    fn seeds(&self) -> Vec<(String, Chain, G)> {
        let mut out = vec![];
        for s in &self.seeds {
            let cfg = Cfg::default();
            let mut c = deploy(&cfg);
            let prefix: Vec<Action> = match *s {
                "empty" => vec![],
                "holders" => vec![bond(ALICE, 10), bond(BOB, 3), bond_st(CAROL, 50)],
                "big" => vec![bond(ALICE, 900_000_000_000_000_000), bond(BOB, 3), bond_st(CAROL, 50)],
                "allowances" => vec![bond(ALICE, 10), bond(BOB, 3), bond_st(CAROL, 50), increase_allowance(ALICE, DAVE, BSEI, 6, None), increase_allowance(BOB, DAVE, BSEI, 2, None)],
                "split" => {
                    let (x1, x2) = self.split.expect("split seed needs split amounts");
                    vec![bond(ALICE, x1 + x2), bond(BOB, 5), bond_st(CAROL, 50)]
                }
                other => panic!("krpmc: unknown seed {}", other),
            };
            run_prefix(&mut c, &prefix);
            let mut g = G::default();
            if *s == "split" {
                let (x1, x2) = self.split.unwrap();
                let mut c2 = deploy(&cfg);
                c2.credit(DAVE, USEI, 4_000_000_000_000_000_000);
                run_prefix(&mut c2, &[bond(ALICE, x1), bond(DAVE, x2), bond(BOB, 5), bond_st(CAROL, 50)]);
                g.second = Some(c2);
            }
            out.push((s.to_string(), c, g));
        }
        out
    }
    fn feed_ghost(&self, g: &G, h: &mut Sha256) {
        h.update(g.updates.to_le_bytes());
        h.update(g.delivered.to_le_bytes());
        h.update(g.claimed.to_le_bytes());
        h.update(g.undistributed.to_le_bytes());
        for (k, v) in &g.ref_lo {
            h.update(k.as_bytes());
            h.update(v.to_le_bytes());
        }
        for (k, v) in &g.ref_hi {
            h.update(k.as_bytes());
            h.update(v.to_le_bytes());
        }
        for (k, v) in &g.claimed_by {
            h.update(k.as_bytes());
            h.update(v.to_le_bytes());
        }
        if let Some(c2) = &g.second {
            h.update(b"|2|");
            c2.feed(h);
        }
    }
    fn observe(&self, c: &Chain) -> RObs {
        RObs::new(c)
    }
    fn actions(&self, _c: &Chain, o: &RObs, _g: &G) -> Vec<Action> {
        let mut v = vec![];
        if self.split.is_some() {
            // everyone but the split holder acts; the split holder stays passive
            for r in &self.rewards {
                v.push(deliver(*r));
            }
            v.push(bond(BOB, 3));
            let b = o.token_bal.get(BOB).copied().unwrap_or(0);
            if b > 0 {
                v.push(transfer(BOB, CAROL, BSEI, 1));
                v.push(unbond(BOB, BSEI, b));
            }
            let cb = o.token_bal.get(CAROL).copied().unwrap_or(0);
            if cb > 0 {
                v.push(transfer(CAROL, BOB, BSEI, cb));
            }
            v.push(claim(BOB, None));
            v.push(claim(CAROL, None));
            return v;
        }
        for r in &self.rewards {
            v.push(deliver(*r));
        }
        for (i, u) in self.users.iter().enumerate() {
            let other = self.users[(i + 1) % self.users.len()];
            for a in &self.bond_amounts {
                v.push(bond(u, *a));
            }
            let b = o.token_bal.get(*u).copied().unwrap_or(0);
            let mut am = vec![1u128, b];
            am.retain(|x| *x > 0);
            am.dedup();
            if am.is_empty() {
                am.push(1);
            }
            for a in &am {
                v.push(transfer(u, other, BSEI, *a));
            }
            v.push(transfer(u, u, BSEI, 1));
            if self.with_sink {
                v.push(transfer(u, HUB, BSEI, 1));
            }
            if self.with_hub_ops {
                v.push(unbond(u, BSEI, am[am.len() - 1]));
                v.push(convert(u, BSEI, 1));
            }
            if self.with_sink {
                v.push(send_to(u, AIRDROP, BSEI, 1, "anything"));
            }
            v.push(claim(u, None));
            if i == 0 {
                v.push(claim(u, Some(CAROL)));
            }
            if self.with_allowance {
                v.push(increase_allowance(u, DAVE, BSEI, 2, None));
                v.push(decrease_allowance(u, DAVE, BSEI, 1, None));
                v.push(transfer_from(DAVE, u, other, BSEI, 1));
                v.push(transfer_from(DAVE, u, u, BSEI, 1));
                v.push(transfer_from(DAVE, u, DAVE, BSEI, 1));
                v.push(burn_from(DAVE, u, BSEI, 1));
                v.push(unbond_from(DAVE, u, BSEI, 1));
                v.push(transfer_from(DAVE, u, other, BSEI, 0));
                if self.with_sink && i == 0 {
                    // a contract that holds an allowance pulls the owner's tokens into itself (spender == receiving contract)
                    v.push(increase_allowance(u, AIRDROP, BSEI, 2, None));
                    v.push(exec(format!("pull_into_self(airdrop,{},1)", u), AIRDROP, BSEI, serde_json::json!({"send_from":{"owner":u,"contract":AIRDROP,"amount":"1","msg":hook("anything")}}), &[]));
                }
            }
        }
        if self.with_allowance {
            v.push(claim(DAVE, None));
        }
        v
    }

    fn step(&self, _pre: &Chain, po: &RObs, g: &G, a: &Action, out: &Outcome, _post: &Chain, qo: &RObs, cx: &mut Cx) -> G {
        let mut g2 = g.clone();
        g2.steps += 1;
        let is_deliver = matches!(a.op, Op::Deliver { .. });
        let is_claim = a.is(REWARD, "claim_rewards");
        // ---- reference ledger -----------------------------------------------------------------
        if is_deliver && out.ok() {
            let r = match a.op {
                Op::Deliver { amt } => amt.0,
                _ => 0,
            };
            g2.delivered += r;
            // the reference uses the bSei token's own balances and supply (what a holder really holds) and its own
            // account of what has been delivered but not distributed yet — nothing of the reward contract's books
            let t = po.supply;
            if t == 0 {
                g2.undistributed += r;
            }
            if t > 0 {
                g2.updates += 1;
                let dist = g.undistributed + r;
                g2.undistributed = 0;
                let idx_inc = muldiv(dist, ONE, t); // floor, as Decimal::from_ratio
                for (h, bal) in &po.token_bal {
                    let b = *bal;
                    if b == 0 {
                        continue;
                    }
                    *g2.ref_lo.entry(h.clone()).or_insert(0) += b * idx_inc;
                    let exact_hi = {
                        let n = u256(b) * u256(dist) * one256();
                        let q = n / u256(t);
                        let q = if q * u256(t) < n { q + Uint256::from(1u128) } else { q };
                        cosmwasm_std::Uint128::try_from(q).map(|x| x.u128()).unwrap_or(u128::MAX)
                    };
                    *g2.ref_hi.entry(h.clone()).or_insert(0) += exact_hi;
                }
            }
        }
        if is_claim && out.ok() {
            let paid: u128 = out
                .fx()
                .iter()
                .map(|e| match e {
                    Fx::BankSend { from, coins, .. } if from == REWARD => coins.iter().filter(|(d, _)| d == KUSD).map(|(_, a)| *a).sum(),
                    _ => 0,
                })
                .sum();
            g2.claimed += paid;
            *g2.claimed_by.entry(a.sender().to_string()).or_insert(0) += paid;
        }
        // ---- product chain ---------------------------------------------------------------------
        if let Some(c2) = &g.second {
            let mut c2n = c2.clone();
            let out2 = apply(&mut c2n, a);
            cx.trigger("c15_product_steps");
            if out2.ok() != out.ok() {
                cx.viol("C15.split_account", "an operation of another holder succeeds in one world and fails in the other", format!("{}: single {:?} split {:?}", a.label, out.res.as_ref().err(), out2.res.as_ref().err()));
            }
            let o2 = RObs::new(&c2n);
            let whole = qo.accrued_fp(ALICE);
            let parts = o2.accrued_fp(ALICE) + o2.accrued_fp(DAVE);
            cx.validated();
            if whole != parts {
                cx.viol("C15.split_account", "accrual of one account differs from the sum over the same holding split in two", format!("{}: single {} split {}", a.label, whole, parts));
            }
            for other in [BOB, CAROL] {
                if qo.accrued_fp(other) != o2.accrued_fp(other) || qo.token_bal.get(other) != o2.token_bal.get(other) {
                    cx.viol("C15.split_account", "another holder's accrual depends on how a third party splits its holding", format!("{}: {} {} vs {}", a.label, other, qo.accrued_fp(other), o2.accrued_fp(other)));
                }
            }
            g2.second = Some(c2n);
        }
        if self.arm.c14 {
            c14_step(po, a, out, qo, cx);
        }
        if self.arm.c15 {
            c15_step(po, &g2, a, out, qo, is_deliver, is_claim, cx);
        }
        g2
    }

    fn state(&self, c: &Chain, o: &RObs, g: &G, cx: &mut Cx) {
        if self.arm.c16 {
            c16_state(o, cx);
        }
        if self.arm.c14 {
            c14_state(o, g, cx);
        }
        if self.arm.diamonds {
            c15_diamonds(self, c, o, g, cx);
        }
    }
}

// =============================================================================================
// C16

fn c16_state(o: &RObs, cx: &mut Cx) {
    cx.trigger("c16_mirror_states");
    cx.validated();
    let mut addrs: Vec<String> = o.token_bal.keys().cloned().collect();
    for a in o.holders.keys() {
        if !addrs.contains(a) {
            addrs.push(a.clone());
        }
    }
    let mut nonzero = 0;
    for a in &addrs {
        let t = o.token_bal.get(a).copied().unwrap_or(0);
        let r = o.holders.get(a).map(|h| h.balance.u128()).unwrap_or(0);
        if t > 0 {
            nonzero += 1;
        }
        if t != r {
            cx.viol("C16.mirror", "reward-contract balance differs from the bSei token balance", format!("{}: token {} reward contract {}", a, t, r));
        }
    }
    if nonzero >= 2 {
        cx.count("c16_states_with_two_or_more_holders");
    }
    if o.state.total_balance.u128() != o.supply {
        cx.viol("C16.mirror_total", "reward-contract total differs from the bSei total supply", format!("supply {} reward total {}", o.supply, o.state.total_balance));
    }
}

// =============================================================================================
// C14

fn c14_state(o: &RObs, g: &G, cx: &mut Cx) {
    for (a, q) in &o.accrued_query {
        let exact = cosmwasm_std::Uint128::try_from(o.accrued_fp(a) / one256()).map(|x| x.u128()).unwrap_or(u128::MAX);
        match q {
            Ok(q) if *q == exact => {}
            Ok(q) => cx.viol("C14.accrued_query", "AccruedRewards query differs from the whole-unit part of the holder's accrued reward", format!("{}: query {} exact {}", a, q, exact)),
            Err(e) => cx.viol("C14.accrued_query", "AccruedRewards query fails", format!("{}: {}", a, e)),
        }
    }
    let total = o.total_accrued_fp();
    let recorded = u256(o.state.prev_reward_balance.u128()) * one256();
    cx.count("c14_states");
    if !total.is_zero() {
        cx.trigger("c14_states_with_accrued_rewards");
        cx.validated();
    }
    if total > recorded {
        cx.viol("C14.solvent", "sum of holders' accrued rewards exceeds the recorded reward balance", format!("accrued {} (1e-18 units) recorded {}", total, o.state.prev_reward_balance));
    }
    if o.state.prev_reward_balance.u128() > o.bank {
        cx.viol("C14.recorded_le_actual", "recorded reward balance exceeds the actual balance", format!("recorded {} bank {}", o.state.prev_reward_balance, o.bank));
    }
    // nothing stranded: at most about one unit per index update (plus one)
    let stranded = recorded - total.min(recorded);
    let bound = u256(g.updates as u128 + 1) * one256();
    if stranded > bound {
        cx.viol("C14.complete", "recorded balance exceeds holders' accrued rewards by more than rounding dust", format!("stranded {} (1e-18 units) after {} index updates", stranded, g.updates));
    }
    if g.claimed > g.delivered {
        cx.viol("C14.claimed_le_delivered", "total claimed exceeds total delivered", format!("claimed {} delivered {}", g.claimed, g.delivered));
    }
}

fn c14_step(po: &RObs, a: &Action, out: &Outcome, qo: &RObs, cx: &mut Cx) {
    if !a.is(REWARD, "claim_rewards") {
        return;
    }
    let u = a.sender().to_string();
    let acc = po.accrued_fp(&u);
    let whole = cosmwasm_std::Uint128::try_from(acc / one256()).map(|x| x.u128()).unwrap_or(u128::MAX);
    let frac = acc - u256(whole) * one256();
    cx.trigger("c14_claims_checked");
    cx.validated();
    if whole == 0 {
        cx.count("c14_claim_of_nothing");
        if out.ok() {
            cx.viol("C14.claim_exact", "claim succeeded although less than one unit has accrued", a.label.clone());
        }
        return;
    }
    if !out.ok() {
        cx.viol("C14.claim_never_fails", format!("claim of accrued rewards fails: {}", crate::unbondlc::classify_err(out.err())), format!("{}: accrued {} units: {}", a.label, whole, out.err()));
        return;
    }
    cx.count("c14_claim_paid");
    let paid: u128 = out
        .fx()
        .iter()
        .map(|e| match e {
            Fx::BankSend { from, coins, .. } if from == REWARD => coins.iter().filter(|(d, _)| d == KUSD).map(|(_, a)| *a).sum(),
            _ => 0,
        })
        .sum();
    let pending_post = qo.holders.get(&u).map(|h| u256(h.pending_rewards.atomics().u128())).unwrap_or(Uint256::zero());
    if paid != whole || pending_post != frac || qo.accrued_fp(&u) != frac {
        cx.viol("C14.claim_exact", "claim did not pay exactly the whole-unit part and keep the fraction", format!("{}: accrued {} paid {} pending after {} expected fraction {}", a.label, acc, paid, pending_post, frac));
    }
    if po.bank - qo.bank != paid || po.state.prev_reward_balance.u128() - qo.state.prev_reward_balance.u128() != paid {
        cx.viol("C14.claim_exact", "balances not reduced by exactly the claimed amount", format!("{}: bank {}->{} recorded {}->{} paid {}", a.label, po.bank, qo.bank, po.state.prev_reward_balance, qo.state.prev_reward_balance, paid));
    }
}

// =============================================================================================
// C15

#[allow(clippy::too_many_arguments)]
fn c15_step(po: &RObs, g2: &G, a: &Action, out: &Outcome, qo: &RObs, is_deliver: bool, is_claim: bool, cx: &mut Cx) {
    // (ii) frame: nothing but a delivery or the holder's own claim changes anybody's accrued reward
    let mut names: Vec<&String> = po.holders.keys().collect();
    for k in qo.holders.keys().chain(po.token_bal.keys()) {
        if !names.contains(&k) {
            names.push(k);
        }
    }
    if !is_deliver {
        cx.trigger("c15_frame_checked");
        cx.validated();
        for h in &names {
            if is_claim && out.ok() && *h == a.sender() {
                continue;
            }
            if po.accrued_fp(h) != qo.accrued_fp(h) {
                cx.viol("C15.frame", format!("accrued reward of a holder changed by {}", crate::hubcore::action_class(a)), format!("{}: {} {} -> {}", a.label, h, po.accrued_fp(h), qo.accrued_fp(h)));
            }
        }
    }
    // (i) reference ledger: accrued + claimed within [lo - slack, hi]
    if out.ok() && (is_deliver || is_claim) {
        cx.trigger("c15_reference_ledger_checked");
        for h in &names {
            let lo = g2.ref_lo.get(*h).copied().unwrap_or(0);
            let hi = g2.ref_hi.get(*h).copied().unwrap_or(0);
            let have = qo.accrued_fp(h) + u256(g2.claimed_by.get(*h).copied().unwrap_or(0)) * one256();
            let slack = u256(g2.steps as u128 + 1);
            if have + slack < u256(lo) || have > u256(hi) {
                cx.viol("C15.proportional", "holder's accrued + claimed rewards differ from balance x reward per bSei", format!("{}: {} has {} expected in [{} - {}, {}] (1e-18 units)", a.label, h, have, lo, slack, hi));
            }
        }
    }
}

/// (iii) commutation diamonds: two operations of different actors leave the reward contract's
/// storage byte-identical in both orders.
fn c15_diamonds(sc: &Reward, c: &Chain, o: &RObs, g: &G, cx: &mut Cx) {
    let acts: Vec<Action> = sc.actions(c, o, g).into_iter().filter(|a| !matches!(a.op, Op::Deliver { .. }) && !a.is(HUB, "bond")).collect();
    let store = |c: &Chain| c.contracts.get(REWARD).unwrap().1.clone();
    for i in 0..acts.len() {
        for j in (i + 1)..acts.len() {
            let (a, b) = (&acts[i], &acts[j]);
            if a.sender() == b.sender() {
                continue;
            }
            // convert st->b mints at a rate the other action may move; everything else is caller-specified
            let mut c1 = c.clone();
            let r1a = apply(&mut c1, a);
            let r1b = apply(&mut c1, b);
            let mut c2 = c.clone();
            let r2b = apply(&mut c2, b);
            let r2a = apply(&mut c2, a);
            if !(r1a.ok() && r1b.ok() && r2a.ok() && r2b.ok()) {
                cx.count("c15_diamond_pairs_not_both_enabled");
                continue;
            }
            cx.probe(4);
            cx.trigger("c15_diamond_pairs_compared");
            if store(&c1) != store(&c2) {
                cx.viol("C15.commute", format!("order of {} and {} changes reward accounting", crate::hubcore::action_class(a), crate::hubcore::action_class(b)), format!("{} / {}", a.label, b.label));
            }
        }
    }
}
