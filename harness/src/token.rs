//! C18 — the token scenario, once per token (bSei on cw20-legacy, stSei on cw20-base) on the
//! integrated deployment: every instantiate shape and every cw20 entry point.
use crate::actions::*;
use crate::chain::*;
use crate::deploy::*;
use crate::explore::*;
use crate::reward::all_accounts;
use serde_json::{json, Value};
use sha2::{Digest, Sha256};
use std::collections::BTreeMap;

const PRINCIPALS: [&str; 5] = [ALICE, BOB, DAVE, EVE, HUB];

#[derive(Clone)]
pub struct Token {
    pub tok: &'static str,
    pub label: String,
    /// instantiate sweep: all initial-balance lists up to this length over {alice, bob} x {0,1,5}
    pub sweep_len: Option<usize>,
    pub seeds: Vec<Vec<(&'static str, u128)>>,
    pub rich: bool,
}

#[derive(Clone, Debug, Default)]
pub struct G {
    /// ledger of grants: (owner, spender) -> (amount, expiry json of the latest grant)
    pub grants: BTreeMap<(String, String), (u128, Value)>,
}

pub struct TObs {
    pub supply: u128,
    pub balances: BTreeMap<String, u128>,
    pub minter: Option<String>,
    pub allowances: BTreeMap<(String, String), u128>,
}

fn expired(exp: &Value, c: &Chain) -> bool {
    if let Some(h) = exp.get("at_height").and_then(|x| x.as_u64()) {
        return c.height >= h;
    }
    if let Some(t) = exp.get("at_time").and_then(|x| x.as_str()) {
        let nanos: u128 = t.parse().unwrap_or(0);
        return (c.time as u128) * 1_000_000_000 >= nanos;
    }
    false
}

impl Token {
    pub fn new(tok: &'static str, label: &str) -> Token {
        Token { tok, label: label.into(), sweep_len: None, seeds: vec![vec![]], rich: true }
    }
    fn deploy_seed(&self, init: &[(&str, u128)]) -> Result<Chain, String> {
        let cfg = Cfg::default();
        let mut c = if self.tok == BSEI { deploy_with_tokens(&cfg, init, &[])? } else { deploy_with_tokens(&cfg, &[], init)? };
        // some tokens issued through the hub as well, so that hub-side paths (unbond, burn) are enabled
        run_prefix(&mut c, &[bond(CAROL, 50), bond_st(CAROL, 50)]);
        if self.rich {
            let a = if self.tok == BSEI { bond(ALICE, 6) } else { bond_st(ALICE, 6) };
            run_prefix(&mut c, &[a]);
        }
        Ok(c)
    }
}

fn lists(max_len: usize) -> Vec<Vec<(&'static str, u128)>> {
    let mut out: Vec<Vec<(&'static str, u128)>> = vec![vec![]];
    let mut cur: Vec<Vec<(&'static str, u128)>> = vec![vec![]];
    for _ in 0..max_len {
        let mut next = vec![];
        for l in &cur {
            for a in [ALICE, BOB] {
                for x in [0u128, 1, 5] {
                    let mut n = l.clone();
                    n.push((a, x));
                    next.push(n);
                }
            }
        }
        out.extend(next.iter().cloned());
        cur = next;
    }
    out
}

impl Scenario for Token {
    type G = G;
    type O = TObs;
    fn name(&self) -> String {
        format!("token/{}-{}", self.tok, self.label)
    }
    fn seeds(&self) -> Vec<(String, Chain, G)> {
        let mut out = vec![];
        let all: Vec<Vec<(&'static str, u128)>> = match self.sweep_len {
            Some(n) => lists(n),
            None => self.seeds.clone(),
        };
        for l in all {
            let name = format!("initial_balances={:?}", l);
            match self.deploy_seed(&l) {
                Ok(c) => out.push((name, c, G::default())),
                Err(_) => {
                    // a rejected instantiate message creates no token; nothing to explore
                }
            }
        }
        out
    }
    fn feed_ghost(&self, g: &G, h: &mut Sha256) {
        for ((o, s), (a, e)) in &g.grants {
            h.update(o.as_bytes());
            h.update(s.as_bytes());
            h.update(a.to_le_bytes());
            h.update(e.to_string().as_bytes());
        }
    }
    fn observe(&self, c: &Chain) -> TObs {
        let t: cw20::TokenInfoResponse = c.query(self.tok, &cw20::Cw20QueryMsg::TokenInfo {}).expect("token info");
        let mut balances = BTreeMap::new();
        let mut names = all_accounts(c, self.tok);
        for p in PRINCIPALS.iter().chain([CAROL, AIRDROP].iter()) {
            if !names.iter().any(|n| n == p) {
                names.push(p.to_string());
            }
        }
        for a in names {
            let b: cw20::BalanceResponse = c.query(self.tok, &cw20::Cw20QueryMsg::Balance { address: a.clone() }).expect("balance");
            balances.insert(a, b.balance.u128());
        }
        let m: Option<cw20::MinterResponse> = c.query(self.tok, &cw20::Cw20QueryMsg::Minter {}).expect("minter");
        let mut allowances = BTreeMap::new();
        for o in PRINCIPALS {
            for s in PRINCIPALS {
                if o != s {
                    let a: cw20::AllowanceResponse = c.query(self.tok, &cw20::Cw20QueryMsg::Allowance { owner: o.into(), spender: s.into() }).expect("allowance");
                    allowances.insert((o.to_string(), s.to_string()), a.allowance.u128());
                }
            }
        }
        TObs { supply: t.total_supply.u128(), balances, minter: m.map(|m| m.minter), allowances }
    }
    fn actions(&self, c: &Chain, o: &TObs, _g: &G) -> Vec<Action> {
        let t = self.tok;
        let mut v = vec![];
        let bal = |u: &str| o.balances.get(u).copied().unwrap_or(0);
        for (u, w) in [(ALICE, BOB), (BOB, ALICE)] {
            let b = bal(u);
            let mut am = vec![0u128, 1, b, b + 1];
            am.sort();
            am.dedup();
            for a in am {
                v.push(transfer(u, w, t, a));
            }
        }
        v.push(transfer(ALICE, ALICE, t, 1));
        v.push(transfer(ALICE, ALICE, t, bal(ALICE)));
        v.push(transfer_from(DAVE, ALICE, ALICE, t, 1));
        v.push(transfer_from(DAVE, ALICE, DAVE, t, 1));
        v.push(send_to(ALICE, ALICE, t, 1, "anything"));
        v.push(transfer(ALICE, HUB, t, 1));
        v.push(unbond(ALICE, t, 1));
        v.push(send_to(BOB, AIRDROP, t, 1, "anything"));
        // mint / burn by everybody
        for s in [HUB, ALICE, EVE] {
            v.push(exec(format!("mint({}->alice,1)", s), s, t, json!({"mint":{"recipient":ALICE,"amount":"1"}}), &[]));
            v.push(exec(format!("burn({},1)", s), s, t, json!({"burn":{"amount":"1"}}), &[]));
        }
        v.push(exec("mint(hub->alice,0)".into(), HUB, t, json!({"mint":{"recipient":ALICE,"amount":"0"}}), &[]));
        // the hub may burn its own holdings only: one unit more than it holds must fail (and burn nobody else's tokens)
        let hb = bal(HUB);
        if hb > 0 {
            v.push(exec(format!("burn(hub,all+1={})", hb + 1), HUB, t, json!({"burn":{"amount":(hb + 1).to_string()}}), &[]));
        }
        // allowances with every expiration shape
        let now_h = c.height;
        let now_t = (c.time as u128) * 1_000_000_000;
        let exps: Vec<Option<Value>> = vec![
            None,
            Some(json!({"never":{}})),
            Some(json!({ "at_height": now_h })),
            Some(json!({ "at_height": now_h + 1 })),
            Some(json!({ "at_time": now_t.to_string() })),
            Some(json!({ "at_time": (now_t + 1_000_000_000).to_string() })),
        ];
        for e in &exps {
            v.push(increase_allowance(ALICE, DAVE, t, 2, e.clone()));
        }
        v.push(increase_allowance(BOB, DAVE, t, 1, None));
        v.push(increase_allowance(DAVE, DAVE, t, 5, None));
        v.push(increase_allowance(DAVE, EVE, t, 5, None));
        v.push(decrease_allowance(ALICE, DAVE, t, 1, None));
        v.push(decrease_allowance(ALICE, DAVE, t, 1, Some(json!({ "at_height": now_h + 1 }))));
        v.push(decrease_allowance(ALICE, DAVE, t, 5, Some(json!({ "at_height": now_h + 1 }))));
        v.push(decrease_allowance(DAVE, ALICE, t, 1, None));
        for a in [0u128, 1, 2, 3] {
            v.push(transfer_from(DAVE, ALICE, BOB, t, a));
        }
        v.push(transfer_from(EVE, ALICE, EVE, t, 1));
        v.push(transfer_from(DAVE, BOB, DAVE, t, 1));
        v.push(unbond_from(DAVE, ALICE, t, 1));
        v.push(burn_from(DAVE, ALICE, t, 1));
        v.push(burn_from(DAVE, ALICE, t, bal(ALICE) + 1));
        v.push(burn_from(EVE, ALICE, t, 1));
        if t == STSEI {
            v.push(exec("update_minter(eve)".into(), EVE, t, json!({"update_minter":{"new_minter":EVE}}), &[]));
            v.push(exec("update_minter(alice)".into(), ALICE, t, json!({"update_minter":{"new_minter":ALICE}}), &[]));
        }
        v.push(advance(1));
        v
    }
    fn step(&self, pre: &Chain, po: &TObs, g: &G, a: &Action, out: &Outcome, _post: &Chain, qo: &TObs, cx: &mut Cx) -> G {
        let t = self.tok;
        let mut g2 = g.clone();
        if out.is_env {
            return g2;
        }
        let Some((sender, contract, msg)) = a.exec_parts() else { return g2 };
        let fx = out.fx();
        let amount_of = |m: &Value| -> u128 { m.get("amount").and_then(|x| x.as_str()).and_then(|s| s.parse().ok()).unwrap_or(0) };
        // ---- only the hub mints and burns --------------------------------------------------------
        if contract == t {
            if let Some(m) = msg.get("mint") {
                cx.trigger("c18_mint_attempts");
                if sender != HUB && out.ok() {
                    cx.viol("C18.mint_auth", "mint accepted from a non-hub sender", a.label.clone());
                }
                if out.ok() && amount_of(m) == 0 && qo.supply != po.supply {
                    cx.viol("C18.supply", "zero mint changed the supply", a.label.clone());
                }
            }
            if msg.get("burn").is_some() {
                cx.trigger("c18_burn_attempts");
                if sender != HUB && out.ok() {
                    cx.viol("C18.burn_auth", "Burn accepted from a non-hub sender", a.label.clone());
                }
            }
            if msg.get("update_minter").is_some() && sender != HUB && out.ok() {
                cx.viol("C18.mint_auth", "minter changed by a non-minter", a.label.clone());
            }
        }
        if !out.ok() {
            return g2;
        }
        cx.validated();
        // ---- supply changes only through mint / burn / burn_from, by exactly the amount ---------------
        let mut delta: i128 = 0;
        for (i, e) in fx.iter().enumerate() {
            if let Fx::Exec { contract: c2, msg: m, .. } = e {
                if c2 == t {
                    if let Some(x) = m.get("mint") {
                        delta += amount_of(x) as i128;
                    }
                    let burn = m.get("burn").or(m.get("burn_from"));
                    if let Some(x) = burn {
                        delta -= amount_of(x) as i128;
                        // every stSei burn and every allowance burn of bSei refreshes the hub's rates in the same tx
                        if t == STSEI || m.get("burn_from").is_some() {
                            cx.trigger("c18_burn_triggers_check_slashing");
                            let refreshed = fx[i + 1..].iter().any(|f| matches!(f, Fx::Exec { contract: h, msg: hm, .. } if h == HUB && hm.get("check_slashing").is_some()));
                            if !refreshed {
                                cx.viol("C18.burn_refresh", format!("{} burn without a hub CheckSlashing in the same transaction", t), a.label.clone());
                            }
                        }
                    }
                }
            }
        }
        // ... and that refresh is real: right after a transaction that burnt tokens the State query's rates are
        // bond / (supply + pending requests) for the supplies as they are now
        if fx.iter().any(|e| matches!(e, Fx::Exec { contract: c2, msg: m, .. } if c2 == t && (m.get("burn").is_some() || m.get("burn_from").is_some()))) {
            let ho = crate::obs::HubObs::new(_post);
            if ho.delegated > 0 && ho.books() > 0 {
                cx.trigger("c18_rates_after_burn_checked");
                let eb = crate::hubcore::expected_rate(ho.state.total_bond_bsei_amount.u128(), ho.b_claims());
                let es = crate::hubcore::expected_rate(ho.state.total_bond_stsei_amount.u128(), ho.st_claims());
                if eb != ho.state.bsei_exchange_rate || es != ho.state.stsei_exchange_rate {
                    cx.viol("C18.burn_refresh", format!("exchange rates not refreshed after a {} burn", t), format!("{}: reported b {} st {} expected b {} st {}", a.label, ho.state.bsei_exchange_rate, ho.state.stsei_exchange_rate, eb, es));
                }
            }
        }
        cx.trigger("c18_supply_delta_checked");
        if qo.supply as i128 - po.supply as i128 != delta {
            cx.viol("C18.supply", "total supply changed by something other than the minted/burned amounts", format!("{}: {} -> {} expected delta {}", a.label, po.supply, qo.supply, delta));
        }
        // ---- allowances ------------------------------------------------------------------------------
        if contract == t {
            if let Some(m) = msg.get("increase_allowance") {
                let sp = m["spender"].as_str().unwrap_or("").to_string();
                let e = g2.grants.entry((sender.to_string(), sp)).or_insert((0, json!({"never":{}})));
                e.0 += amount_of(m);
                if !m["expires"].is_null() {
                    e.1 = m["expires"].clone();
                }
                cx.count("c18_grants");
            }
            if let Some(m) = msg.get("decrease_allowance") {
                let sp = m["spender"].as_str().unwrap_or("").to_string();
                let k = (sender.to_string(), sp);
                if let Some(e) = g2.grants.get_mut(&k) {
                    let amt = amount_of(m);
                    if amt < e.0 {
                        e.0 -= amt;
                        if !m["expires"].is_null() {
                            e.1 = m["expires"].clone();
                        }
                    } else {
                        g2.grants.remove(&k);
                    }
                }
            }
            for key in ["transfer_from", "send_from", "burn_from"] {
                if let Some(m) = msg.get(key) {
                    let owner = m["owner"].as_str().unwrap_or("").to_string();
                    let amt = amount_of(m);
                    let k = (owner.clone(), sender.to_string());
                    cx.trigger("c18_allowance_spend_checked");
                    let (granted, exp) = g.grants.get(&k).cloned().unwrap_or((0, json!({"never":{}})));
                    if amt > granted {
                        cx.viol("C18.allowance", format!("{} moved more than the allowance granted by the owner", key), format!("{}: granted {} moved {}", a.label, granted, amt));
                    }
                    if expired(&exp, pre) {
                        cx.viol("C18.allowance_expiry", format!("{} accepted after the grant expired", key), format!("{}: expiry {} height {} time {}", a.label, exp, pre.height, pre.time));
                    }
                    let qa = |o: &TObs| o.allowances.get(&k).copied().unwrap_or(0);
                    if qa(po) < amt || qa(po) - qa(qo) != amt {
                        cx.viol("C18.allowance", format!("{} did not reduce the allowance by exactly the amount", key), format!("{}: allowance {} -> {} amount {}", a.label, qa(po), qa(qo), amt));
                    }
                    let ob = |o: &TObs| o.balances.get(&owner).copied().unwrap_or(0);
                    let recipient_is_owner = m.get("recipient").and_then(|x| x.as_str()) == Some(owner.as_str());
                    if !recipient_is_owner && (ob(po) < amt || ob(po) - ob(qo) != amt) {
                        cx.viol("C18.allowance", format!("{} did not debit the owner by exactly the amount", key), format!("{}: owner balance {} -> {} amount {}", a.label, ob(po), ob(qo), amt));
                    }
                    if let Some(e) = g2.grants.get_mut(&k) {
                        e.0 = e.0.saturating_sub(amt);
                    }
                }
            }
        }
        // nobody but the owner raises an allowance
        for (k, v) in &qo.allowances {
            let before = po.allowances.get(k).copied().unwrap_or(0);
            if *v > before {
                let ok = contract == t && sender == k.0 && msg.get("increase_allowance").map(|m| m["spender"].as_str() == Some(k.1.as_str())).unwrap_or(false);
                if !ok {
                    cx.viol("C18.allowance_raise", "an allowance was raised by someone other than its owner", format!("{}: ({} -> {}) {} -> {}", a.label, k.0, k.1, before, v));
                }
            }
        }
        g2
    }
    fn state(&self, _c: &Chain, o: &TObs, g: &G, cx: &mut Cx) {
        cx.trigger("c18_states");
        cx.validated();
        let sum: u128 = o.balances.values().sum();
        if sum != o.supply {
            cx.viol("C18.conservation", format!("{}: sum of balances differs from the total supply", self.tok), format!("sum {} supply {} balances {:?}", sum, o.supply, o.balances));
        }
        if o.minter.as_deref() != Some(HUB) {
            cx.viol("C18.minter", "minter is not the hub", format!("{:?}", o.minter));
        }
        for (k, v) in &o.allowances {
            let granted = g.grants.get(k).map(|x| x.0).unwrap_or(0);
            if *v > granted {
                cx.viol("C18.allowance", "Allowance query exceeds what the owner granted", format!("({} -> {}): query {} granted {}", k.0, k.1, v, granted));
            }
        }
    }
}
