//! Layered, parallel, explicit-state breadth-first explorer (DESIGN.md section 3.2).
use crate::actions::{apply, Action, Outcome};
use crate::chain::{machinery_error, Chain, KUSD, USEI};
use dashmap::DashMap;
use rayon::prelude::*;
use serde_json::{json, Value};
use sha2::{Digest, Sha256};
use std::collections::BTreeMap;
use std::time::Instant;

pub type Fp = [u8; 16];

/// Oracle context: trigger counters and violations raised while checking one transition / state.
#[derive(Default)]
pub struct Cx {
    pub counters: BTreeMap<&'static str, u64>,
    pub viols: Vec<Viol>,
    pub nontrivial: bool,
    pub validated: bool,
    /// implementation executions performed by probes / matrices / products on clones
    pub probe_execs: u64,
}
#[derive(Clone, Debug)]
pub struct Viol {
    pub oracle: String,
    /// stable signature: call site / cause class (known-findings are matched on it)
    pub sig: String,
    pub detail: String,
}
impl Cx {
    pub fn count(&mut self, k: &'static str) {
        *self.counters.entry(k).or_insert(0) += 1;
    }
    pub fn add(&mut self, k: &'static str, n: u64) {
        *self.counters.entry(k).or_insert(0) += n;
    }
    /// a premise of an oracle held here (non-vacuous case)
    pub fn trigger(&mut self, k: &'static str) {
        self.count(k);
        self.nontrivial = true;
    }
    /// the outcome was compared against an independent recomputation / reference
    pub fn validated(&mut self) {
        self.validated = true;
    }
    pub fn probe(&mut self, n: u64) {
        self.probe_execs += n;
    }
    pub fn viol(&mut self, oracle: &str, sig: impl Into<String>, detail: impl Into<String>) {
        self.viols.push(Viol { oracle: oracle.into(), sig: sig.into(), detail: detail.into() });
    }
}

pub trait Scenario: Sync {
    /// ghost state carried along every path (part of the state key)
    type G: Clone + Send + Sync;
    /// observation of a chain state (computed once per explored state / transition)
    type O: Send + Sync;
    fn name(&self) -> String;
    fn seeds(&self) -> Vec<(String, Chain, Self::G)>;
    fn feed_ghost(&self, g: &Self::G, h: &mut Sha256);
    fn observe(&self, c: &Chain) -> Self::O;
    fn actions(&self, c: &Chain, o: &Self::O, g: &Self::G) -> Vec<Action>;
    /// step oracles; returns the ghost of the post-state
    #[allow(clippy::too_many_arguments)]
    fn step(&self, pre: &Chain, pre_o: &Self::O, g: &Self::G, a: &Action, out: &Outcome, post: &Chain, post_o: &Self::O, cx: &mut Cx) -> Self::G;
    /// state oracles and probes; called exactly once per distinct state
    fn state(&self, c: &Chain, o: &Self::O, g: &Self::G, cx: &mut Cx);
    /// should successors of this state be explored? (e.g. stop after a terminal condition)
    fn expand(&self, _c: &Chain, _g: &Self::G) -> bool {
        true
    }
}

#[derive(Clone, Debug)]
pub struct FoundViol {
    pub viol: Viol,
    pub seed: String,
    pub actions: Vec<Action>,
    pub depth: usize,
    pub count: u64,
}

pub struct Report {
    pub scenario: String,
    pub states: u64,
    pub transitions: u64,
    pub nontrivial: u64,
    pub validated: u64,
    pub probe_execs: u64,
    pub depth_completed: usize,
    pub depth_target: usize,
    pub exhaustive: bool,
    pub cap_hit: Option<String>,
    pub counters: BTreeMap<String, u64>,
    pub layers: Vec<(usize, u64, u64)>,
    pub violations: Vec<FoundViol>,
    pub samples: Vec<Value>,
    pub wall_s: f64,
    pub digest: String,
    pub seeds: Vec<String>,
    pub alphabet_sample: Vec<String>,
}

pub struct Limits {
    pub max_depth: usize,
    pub max_secs: f64,
    pub max_states: u64,
}

struct Acc<S: Scenario> {
    next: Vec<(Chain, S::G, Fp)>,
    counters: BTreeMap<&'static str, u64>,
    transitions: u64,
    nontrivial: u64,
    validated: u64,
    new_states: u64,
    probe_execs: u64,
    viols: Vec<(Viol, Fp, u32, bool)>, // (viol, pre fp, action idx, is_state_viol)
    xor: [u8; 16],
}
impl<S: Scenario> Acc<S> {
    fn new() -> Self {
        Acc { next: vec![], counters: BTreeMap::new(), transitions: 0, nontrivial: 0, validated: 0, new_states: 0, probe_execs: 0, viols: vec![], xor: [0; 16] }
    }
    fn merge(mut self, mut o: Self) -> Self {
        self.next.append(&mut o.next);
        for (k, v) in o.counters {
            *self.counters.entry(k).or_insert(0) += v;
        }
        self.transitions += o.transitions;
        self.nontrivial += o.nontrivial;
        self.validated += o.validated;
        self.new_states += o.new_states;
        self.probe_execs += o.probe_execs;
        self.viols.append(&mut o.viols);
        for i in 0..16 {
            self.xor[i] ^= o.xor[i];
        }
        self
    }
}

pub fn state_fp<S: Scenario>(sc: &S, c: &Chain, g: &S::G) -> Fp {
    let mut h = Sha256::new();
    c.feed(&mut h);
    h.update(b"|G|");
    sc.feed_ghost(g, &mut h);
    let d = h.finalize();
    let mut o = [0u8; 16];
    o.copy_from_slice(&d[..16]);
    o
}

fn check_supply(pre: &Chain, post: &Chain, out: &Outcome, a: &Action) {
    for d in [USEI, KUSD] {
        let exp = out.supply_delta.get(d).copied().unwrap_or(0);
        let got = post.total(d) as i128 - pre.total(d) as i128;
        if exp != got {
            panic!("krpmc MACHINERY: coin conservation broken for {} by {}: expected delta {} got {}", d, a.label, exp, got);
        }
    }
}

pub fn explore<S: Scenario>(sc: &S, lim: &Limits, seed_perm: u64) -> Report {
    let t0 = Instant::now();
    let visited: DashMap<Fp, (Fp, u32)> = DashMap::with_capacity(1 << 16);
    let mut counters: BTreeMap<&'static str, u64> = BTreeMap::new();
    let mut raw_viols: Vec<(Viol, Fp, u32, bool, usize)> = vec![];
    let mut frontier: Vec<(Chain, S::G, Fp)> = vec![];
    let seeds = sc.seeds();
    let seed_names: Vec<String> = seeds.iter().map(|s| s.0.clone()).collect();
    let mut digest = [0u8; 16];
    let mut states = 0u64;
    let mut alphabet_sample = vec![];
    let seed_probe_execs;
    {
        let mut cx = Cx::default();
        for (i, (_name, c, g)) in seeds.iter().enumerate() {
            let fp = state_fp(sc, c, g);
            let mut fresh = false;
            visited.entry(fp).or_insert_with(|| {
                fresh = true;
                (fp, u32::MAX - i as u32)
            });
            if fresh {
                let o = sc.observe(c);
                sc.state(c, &o, g, &mut cx);
                for v in cx.viols.drain(..) {
                    raw_viols.push((v, fp, u32::MAX, true, 0));
                }
                if i == 0 {
                    alphabet_sample = sc.actions(c, &o, g).iter().map(|a| a.label.clone()).collect();
                }
                frontier.push((c.clone(), g.clone(), fp));
                states += 1;
                for k in 0..16 {
                    digest[k] ^= fp[k];
                }
            }
        }
        for (k, v) in cx.counters {
            *counters.entry(k).or_insert(0) += v;
        }
        seed_probe_execs = cx.probe_execs;
    }
    let mut transitions = 0u64;
    let mut nontrivial = 0u64;
    let mut validated = 0u64;
    let mut probe_execs = seed_probe_execs;
    let mut layers = vec![(0usize, states, 0u64)];
    let mut depth_completed = 0usize;
    let mut cap_hit = None;
    let mut deepest: Option<(Fp, u32)> = None;
    let mut layer_rate: f64 = 0.0;
    let mut growth: f64 = 8.0;
    let rss0 = rss_gb();
    for d in 0..lim.max_depth {
        if frontier.is_empty() {
            depth_completed = lim.max_depth; // fixpoint: nothing left to explore at any depth
            break;
        }
        // budget: estimate this layer's cost from the previous one
        let elapsed = t0.elapsed().as_secs_f64();
        if d > 0 && layer_rate > 0.0 {
            let est = frontier.len() as f64 * layer_rate;
            if elapsed + est > lim.max_secs {
                cap_hit = Some(format!("wall-clock cap {}s: layer {} (frontier {}) estimated {:.0}s, not started", lim.max_secs, d + 1, frontier.len(), est));
                break;
            }
        }
        let rss = rss_gb();
        if rss > 44.0 {
            cap_hit = Some(format!("memory cap: resident set {:.1} GB before layer {}", rss, d + 1));
            break;
        }
        // a frontier state costs roughly 10 kB; the next layer is about as many times larger as this one was
        // the successors of this layer are stored unless it is the last one; estimate them from the last growth
        // factor and the measured resident bytes per stored state
        let per_state = if frontier.len() > 10_000 { ((rss - rss0).max(0.0) * 1.0e9 / frontier.len() as f64).clamp(1_500.0, 16_000.0) } else { 6_000.0 };
        // if they would not fit, this layer is still explored — as the final one: every transition out of the
        // frontier is executed and checked, the new states are checked but not stored
        let mut final_by_memory = false;
        if d + 1 < lim.max_depth && rss * 1.0e9 + frontier.len() as f64 * growth.max(2.0) * per_state > 44.0e9 {
            cap_hit = Some(format!("memory cap: successors of a frontier of {} states (growth x{:.1}, {:.0} bytes per state, {:.1} GB resident) would not fit; layer {} explored as the final layer (target depth {})", frontier.len(), growth, per_state, rss, d + 1, lim.max_depth));
            final_by_memory = true;
        }
        if states > lim.max_states {
            cap_hit = Some(format!("state cap {} reached before layer {}", lim.max_states, d + 1));
            break;
        }
        let tl = Instant::now();
        let last = d + 1 == lim.max_depth || final_by_memory;
        let fl = frontier.len();
        let acc: Acc<S> = frontier
            .par_iter()
            .fold(Acc::<S>::new, |mut acc, (c, g, fp)| {
                if !sc.expand(c, g) {
                    return acc;
                }
                let pre_o = sc.observe(c);
                let mut acts = sc.actions(c, &pre_o, g);
                let n_acts = acts.len();
                // VERIF_SEED only permutes the expansion order (self-check: counts must not depend on it)
                let rot = if seed_perm != 0 && n_acts > 1 { (seed_perm as usize) % n_acts } else { 0 };
                acts.rotate_left(rot);
                for (j, a) in acts.iter().enumerate() {
                    let i = (j + rot) % n_acts.max(1);
                    let mut post = c.clone();
                    let out = apply(&mut post, a);
                    check_supply(c, &post, &out, a);
                    let mut cx = Cx::default();
                    let post_o_owned;
                    let post_o = if !out.ok() {
                        &pre_o
                    } else {
                        // the observation consists of public queries; if one of them fails in a reachable state that is a
                        // finding about the contracts (every property is stated over these queries), not a harness crash
                        match std::panic::catch_unwind(std::panic::AssertUnwindSafe(|| crate::chain::quiet_panics(|| sc.observe(&post)))) {
                            Ok(o) => {
                                post_o_owned = o;
                                &post_o_owned
                            }
                            Err(p) => {
                                let msg = p.downcast_ref::<String>().cloned().or(p.downcast_ref::<&str>().map(|s| s.to_string())).unwrap_or_default();
                                acc.viols.push((Viol { oracle: "OBS.query_fails".into(), sig: format!("a public query fails in a reachable state: {}", msg.split(':').next().unwrap_or("")), detail: format!("after {}: {}", a.label, msg) }, *fp, i as u32, false));
                                acc.transitions += 1;
                                continue;
                            }
                        }
                    };
                    let g2 = sc.step(c, &pre_o, g, a, &out, &post, post_o, &mut cx);
                    acc.transitions += 1;
                    let fp2 = state_fp(sc, &post, &g2);
                    let idx = i as u32;
                    let mut is_new = false;
                    visited
                        .entry(fp2)
                        .and_modify(|e| {
                            // deterministic parent choice among same-layer discoverers is not needed for
                            // soundness; keep the first
                            let _ = e;
                        })
                        .or_insert_with(|| {
                            is_new = true;
                            (*fp, idx)
                        });
                    for v in cx.viols.drain(..) {
                        acc.viols.push((v, *fp, i as u32, false));
                    }
                    if is_new {
                        acc.new_states += 1;
                        for k in 0..16 {
                            acc.xor[k] ^= fp2[k];
                        }
                        sc.state(&post, post_o, &g2, &mut cx);
                        for v in cx.viols.drain(..) {
                            acc.viols.push((v, *fp, i as u32, true));
                        }
                        if !last {
                            acc.next.push((post, g2, fp2));
                        }
                    }
                    if cx.nontrivial {
                        acc.nontrivial += 1;
                    }
                    if cx.validated {
                        acc.validated += 1;
                    }
                    acc.probe_execs += cx.probe_execs;
                    for (k, v) in cx.counters {
                        *acc.counters.entry(k).or_insert(0) += v;
                    }
                }
                acc
            })
            .reduce(Acc::<S>::new, |a, b| a.merge(b));
        if let Some(m) = machinery_error() {
            panic!("krpmc {}", m);
        }
        transitions += acc.transitions;
        nontrivial += acc.nontrivial;
        validated += acc.validated;
        probe_execs += acc.probe_execs;
        states += acc.new_states;
        for k in 0..16 {
            digest[k] ^= acc.xor[k];
        }
        for (k, v) in acc.counters {
            *counters.entry(k).or_insert(0) += v;
        }
        for (v, fp, i, st) in acc.viols {
            if raw_viols.len() < 200_000 {
                raw_viols.push((v, fp, i, st, d + 1));
            }
        }
        depth_completed = d + 1;
        layers.push((d + 1, acc.new_states, acc.transitions));
        if let Some((_, _, fp)) = acc.next.first() {
            deepest = visited.get(fp).map(|e| (*fp, e.1));
        }
        let secs = tl.elapsed().as_secs_f64();
        // the estimate is only meaningful once a layer saturates the worker threads
        layer_rate = if fl >= 8 * rayon::current_num_threads() { secs / fl as f64 * 1.15 } else { 0.0 };
        eprintln!(
            "[{}] depth {} new_states {} total_states {} transitions {} layer {:.1}s total {:.1}s rss {:.1}GB",
            sc.name(),
            d + 1,
            acc.new_states,
            states,
            transitions,
            secs,
            t0.elapsed().as_secs_f64(),
            rss_gb()
        );
        if fl > 0 && !acc.next.is_empty() {
            growth = acc.next.len() as f64 / fl as f64;
        }
        frontier = acc.next;
        if final_by_memory {
            break;
        }
    }
    let _ = deepest;

    // ---- violations: dedupe by (oracle, sig), reconstruct shortest path --------------------
    let mut by_sig: BTreeMap<(String, String), (Viol, Fp, u32, usize, u64)> = BTreeMap::new();
    for (v, fp, i, _st, depth) in raw_viols {
        let k = (v.oracle.clone(), v.sig.clone());
        match by_sig.get_mut(&k) {
            Some(e) => {
                e.4 += 1;
                if depth < e.3 {
                    *e = (v, fp, i, depth, e.4);
                }
            }
            None => {
                by_sig.insert(k, (v, fp, i, depth, 1));
            }
        }
    }
    let mut violations = vec![];
    for (_k, (v, fp, i, depth, count)) in by_sig {
        let (seed, mut actions) = reconstruct(sc, &visited, &seeds, fp);
        if i != u32::MAX {
            // the violating transition itself
            let (c, g) = replay_path(sc, &seeds, &seed, &actions);
            let o = sc.observe(&c);
            let acts = sc.actions(&c, &o, &g);
            if let Some(a) = acts.get(i as usize) {
                actions.push(a.clone());
            }
        }
        violations.push(FoundViol { viol: v, seed, actions, depth, count });
    }

    // ---- samples: a few explored paths including a deepest one ------------------------------
    let mut samples = vec![];
    {
        let mut picks: Vec<Fp> = vec![];
        if let Some((_, _, fp)) = frontier.first() {
            picks.push(*fp);
        }
        if let Some((_, _, fp)) = frontier.last() {
            picks.push(*fp);
        }
        if picks.is_empty() {
            // last layer not stored: take any two visited states
            for e in visited.iter().take(2) {
                picks.push(*e.key());
            }
        }
        for fp in picks {
            let (seed, actions) = reconstruct(sc, &visited, &seeds, fp);
            samples.push(json!({"seed": seed, "actions": actions.iter().map(|a| a.label.clone()).collect::<Vec<_>>() }));
        }
    }
    let exhaustive = cap_hit.is_none();
    Report {
        scenario: sc.name(),
        states,
        transitions,
        nontrivial,
        validated,
        probe_execs,
        depth_completed,
        depth_target: lim.max_depth,
        exhaustive,
        cap_hit,
        counters: counters.into_iter().map(|(k, v)| (k.to_string(), v)).collect(),
        layers,
        violations,
        samples,
        wall_s: t0.elapsed().as_secs_f64(),
        digest: digest.iter().map(|b| format!("{:02x}", b)).collect(),
        seeds: seed_names,
        alphabet_sample,
    }
}

fn rss_gb() -> f64 {
    std::fs::read_to_string("/proc/self/statm").ok().and_then(|t| t.split_whitespace().nth(1).and_then(|x| x.parse::<f64>().ok())).map(|pages| pages * 4096.0 / 1.0e9).unwrap_or(0.0)
}

fn reconstruct<S: Scenario>(sc: &S, visited: &DashMap<Fp, (Fp, u32)>, seeds: &[(String, Chain, S::G)], mut fp: Fp) -> (String, Vec<Action>) {
    let mut idxs: Vec<u32> = vec![];
    let seed_i;
    loop {
        let e = *visited.get(&fp).expect("krpmc MACHINERY: broken parent chain");
        if e.0 == fp {
            seed_i = (u32::MAX - e.1) as usize;
            break;
        }
        idxs.push(e.1);
        fp = e.0;
    }
    idxs.reverse();
    let (name, c0, g0) = &seeds[seed_i];
    let mut c = c0.clone();
    let mut g = g0.clone();
    let mut actions = vec![];
    for i in idxs {
        let o = sc.observe(&c);
        let acts = sc.actions(&c, &o, &g);
        let a = acts.get(i as usize).expect("krpmc MACHINERY: path index out of range (nondeterministic alphabet?)").clone();
        let mut post = c.clone();
        let out = apply(&mut post, &a);
        let mut cx = Cx::default();
        let po = sc.observe(&post);
        g = sc.step(&c, &o, &g, &a, &out, &post, &po, &mut cx);
        c = post;
        actions.push(a);
    }
    (name.clone(), actions)
}

pub fn replay_path<S: Scenario>(sc: &S, seeds: &[(String, Chain, S::G)], seed: &str, actions: &[Action]) -> (Chain, S::G) {
    let (_, c0, g0) = seeds.iter().find(|s| s.0 == seed).expect("krpmc MACHINERY: unknown seed");
    let mut c = c0.clone();
    let mut g = g0.clone();
    for a in actions {
        let o = sc.observe(&c);
        let mut post = c.clone();
        let out = apply(&mut post, a);
        let mut cx = Cx::default();
        let po = sc.observe(&post);
        g = sc.step(&c, &o, &g, a, &out, &post, &po, &mut cx);
        c = post;
    }
    (c, g)
}

/// Re-execute an action list without the explorer, printing every step and re-evaluating all
/// oracles of the scenario. Returns the violations seen (oracle, sig, detail, step index).
pub fn replay_verbose<S: Scenario>(sc: &S, seed: &str, actions: &[Action], verbose: bool) -> Vec<(Viol, usize)> {
    let seeds = sc.seeds();
    let (_, c0, g0) = seeds.iter().find(|s| s.0 == seed).expect("krpmc MACHINERY: unknown seed");
    let mut c = c0.clone();
    let mut g = g0.clone();
    let mut found = vec![];
    {
        let mut cx = Cx::default();
        let o = sc.observe(&c);
        sc.state(&c, &o, &g, &mut cx);
        for v in cx.viols {
            found.push((v, 0));
        }
    }
    for (i, a) in actions.iter().enumerate() {
        let o = sc.observe(&c);
        let mut post = c.clone();
        let out = apply(&mut post, a);
        let mut cx = Cx::default();
        let po = sc.observe(&post);
        let g2 = sc.step(&c, &o, &g, a, &out, &post, &po, &mut cx);
        sc.state(&post, &po, &g2, &mut cx);
        if verbose {
            match &out.res {
                Ok(fx) => println!("  step {:>2} {:<48} ok ({} effects)", i + 1, a.label, fx.len()),
                Err(e) => println!("  step {:>2} {:<48} FAILED: {}", i + 1, a.label, e),
            }
        }
        for v in cx.viols {
            if verbose {
                println!("      -> oracle {} [{}]: {}", v.oracle, v.sig, v.detail);
            }
            found.push((v, i + 1));
        }
        c = post;
        g = g2;
    }
    found
}
