//! Public observations of a hub deployment state and exact-arithmetic helpers for the oracles.
use crate::chain::*;
use crate::deploy::*;
use basset::hub::{AllHistoryResponse, CurrentBatchResponse, Parameters, QueryMsg as HubQ, State as HubStored, StateResponse, UnbondHistoryResponse, UnbondRequestsResponse};
use cosmwasm_std::{Decimal, Uint128, Uint256};
use std::collections::BTreeMap;

pub const ONE: u128 = 1_000_000_000_000_000_000;
pub const USERS: [&str; 4] = [ALICE, BOB, CAROL, DAVE];
pub const HOLDERS: [&str; 6] = [ALICE, BOB, CAROL, DAVE, HUB, AIRDROP];

/// floor(a * b / c) in 256-bit
pub fn muldiv(a: u128, b: u128, c: u128) -> u128 {
    let r = Uint256::from(a) * Uint256::from(b) / Uint256::from(c);
    Uint128::try_from(r).expect("muldiv overflow").u128()
}
pub fn muldiv_opt(a: u128, b: u128, c: u128) -> Option<u128> {
    if c == 0 {
        return None;
    }
    let r = Uint256::from(a) * Uint256::from(b) / Uint256::from(c);
    Uint128::try_from(r).ok().map(|x| x.u128())
}
/// floor(amount * rate)
pub fn mul_dec(a: u128, d: Decimal) -> u128 {
    muldiv(a, d.atomics().u128(), ONE)
}
/// floor(amount / rate) = floor(a * 1e18 / rate_atomics)
pub fn div_dec(a: u128, d: Decimal) -> Option<u128> {
    muldiv_opt(a, ONE, d.atomics().u128())
}
/// Decimal::from_ratio semantics: floor(n * 1e18 / d) atomics
pub fn ratio(n: u128, d: u128) -> Option<Decimal> {
    muldiv_opt(n, ONE, d).map(|a| Decimal::new(Uint128::new(a)))
}

#[derive(Clone, Debug)]
pub struct HubObs {
    pub state: StateResponse,
    pub stored: HubStored,
    pub batch: CurrentBatchResponse,
    pub params: Parameters,
    pub bsei_supply: u128,
    pub stsei_supply: u128,
    pub bsei_bal: BTreeMap<String, u128>,
    pub stsei_bal: BTreeMap<String, u128>,
    pub hub_usei: u128,
    pub delegated: u128,
    pub history: Vec<UnbondHistoryResponse>,
    pub requests: BTreeMap<String, Vec<(u64, u128, u128)>>,
    pub registry: Vec<String>,
}

pub fn token_supply(c: &Chain, tok: &str) -> u128 {
    let t: cw20::TokenInfoResponse = c.query(tok, &cw20::Cw20QueryMsg::TokenInfo {}).expect("token info");
    t.total_supply.u128()
}
pub fn token_bal(c: &Chain, tok: &str, u: &str) -> u128 {
    let b: cw20::BalanceResponse = c.query(tok, &cw20::Cw20QueryMsg::Balance { address: u.into() }).expect("balance");
    b.balance.u128()
}
pub fn hub_state(c: &Chain) -> StateResponse {
    c.query(HUB, &HubQ::State {}).expect("hub state query")
}
pub fn hub_stored(c: &Chain) -> HubStored {
    basset_sei_hub::state::STATE.load(&c.contracts.get(HUB).unwrap().1).expect("hub stored state")
}
pub fn hub_history(c: &Chain) -> Vec<UnbondHistoryResponse> {
    let mut all = vec![];
    let mut start: Option<u64> = None;
    loop {
        let h: AllHistoryResponse = c.query(HUB, &HubQ::AllHistory { start_from: start, limit: Some(100) }).expect("history");
        let n = h.history.len();
        if let Some(l) = h.history.last() {
            start = Some(l.batch_id);
        }
        all.extend(h.history);
        if n < 100 {
            break;
        }
    }
    all
}
pub fn hub_requests(c: &Chain, u: &str) -> Vec<(u64, u128, u128)> {
    let r: UnbondRequestsResponse = c.query(HUB, &HubQ::UnbondRequests { address: u.into() }).expect("requests");
    r.requests.into_iter().map(|(b, x, y)| (b, x.u128(), y.u128())).collect()
}
/// the registered validators, read from the registry's own storage map (the GetValidatorsForDelegation query is an
/// input of the delegation plan and therefore under test itself)
pub fn registry_list(c: &Chain) -> Vec<String> {
    let store = &c.contracts.get(REG).expect("registry contract").1;
    let mut r: Vec<String> = basset_sei_validators_registry::registry::REGISTRY
        .range(store, None, None, cosmwasm_std::Order::Ascending)
        .map(|x| x.expect("registry entry").1.address)
        .collect();
    r.sort();
    r
}

impl HubObs {
    pub fn new(c: &Chain) -> HubObs {
        let mut bsei_bal = BTreeMap::new();
        let mut stsei_bal = BTreeMap::new();
        for u in HOLDERS {
            bsei_bal.insert(u.to_string(), token_bal(c, BSEI, u));
            stsei_bal.insert(u.to_string(), token_bal(c, STSEI, u));
        }
        let mut requests = BTreeMap::new();
        for u in USERS {
            requests.insert(u.to_string(), hub_requests(c, u));
        }
        // the period and fee parameters are the configured ones (no explored alphabet that observes through HubObs
        // updates them); the remaining fields (denoms, pause flag) are what the hub reports
        let mut params: Parameters = c.query(HUB, &HubQ::Parameters {}).expect("params");
        if let Some((e, u, f, t)) = c.hub_cfg {
            params.epoch_period = e;
            params.unbonding_period = u;
            params.peg_recovery_fee = cosmwasm_std::Decimal::raw(f);
            params.er_threshold = cosmwasm_std::Decimal::raw(t);
        }
        HubObs {
            state: hub_state(c),
            stored: hub_stored(c),
            batch: c.query(HUB, &HubQ::CurrentBatch {}).expect("batch"),
            params,
            bsei_supply: token_supply(c, BSEI),
            stsei_supply: token_supply(c, STSEI),
            bsei_bal,
            stsei_bal,
            hub_usei: c.bal(HUB, USEI),
            delegated: c.total_delegated(HUB),
            history: hub_history(c),
            requests,
            registry: registry_list(c),
        }
    }
    /// time of the last undelegation: the newest history entry, or the hub's instantiation
    pub fn last_undelegation(&self) -> u64 {
        self.history.iter().map(|h| h.time).max().unwrap_or(crate::deploy::GENESIS)
    }
    /// the bSei rate as C03 defines it: backing over claims (1 when either is zero). While nothing at all is
    /// booked, C03 defines no rate ("whenever stake is bonded"): the hub then keeps pricing with the rate it stored
    /// last, which harms nobody (the first bonder's tokens are worth exactly its payment), so that rate is used
    pub fn bsei_rate_derived(&self) -> cosmwasm_std::Decimal {
        if self.books() == 0 {
            return self.state.bsei_exchange_rate;
        }
        crate::hubcore::expected_rate(self.state.total_bond_bsei_amount.u128(), self.b_claims())
    }
    pub fn stsei_rate_derived(&self) -> cosmwasm_std::Decimal {
        if self.books() == 0 {
            return self.state.stsei_exchange_rate;
        }
        crate::hubcore::expected_rate(self.state.total_bond_stsei_amount.u128(), self.st_claims())
    }
    pub fn b_claims(&self) -> u128 {
        self.bsei_supply + self.batch.requested_bsei_with_fee.u128()
    }
    pub fn st_claims(&self) -> u128 {
        self.stsei_supply + self.batch.requested_stsei.u128()
    }
    pub fn books(&self) -> u128 {
        self.state.total_bond_bsei_amount.u128() + self.state.total_bond_stsei_amount.u128()
    }
    pub fn stored_books(&self) -> u128 {
        self.stored.total_bond_bsei_amount.u128() + self.stored.total_bond_stsei_amount.u128()
    }
    pub fn hist(&self, id: u64) -> Option<&UnbondHistoryResponse> {
        self.history.iter().find(|h| h.batch_id == id)
    }
    pub fn tok_bal(&self, tok: &str, u: &str) -> u128 {
        let m = if tok == BSEI { &self.bsei_bal } else { &self.stsei_bal };
        m.get(u).copied().unwrap_or(0)
    }
}
