//! Property table: which scenarios, bounds and oracles decide each property.
use crate::hubcore::*;
use crate::unbondlc::UnbondLc;
use crate::runner::*;
use crate::chain::*;
use crate::deploy::*;

fn envelope() -> Vec<String> {
    vec![
        "operating envelope of DESIGN.md section 4 (E1 magnitudes <= 1e18, E2 chain unbonding time == hub unbonding_period with begin-block maturity, E3 trusted wiring, E4 slashing fractions, E5 principals)".into(),
        "chain model of DESIGN.md section 3.1 is the trusted base (bank, staking, distribution, wasm dispatch); gas, share truncation and entry caps are not modelled".into(),
        "amounts are explored at lattice points and state-relative fractions, not for every integer".into(),
    ]
}

fn ulc(label: &str, f: impl FnOnce(&mut UnbondLc)) -> UnbondLc {
    let mut h = UnbondLc::base(label);
    f(&mut h);
    h
}

fn hub(label: &str, f: impl FnOnce(&mut HubCore)) -> HubCore {
    let mut h = HubCore::base(label);
    f(&mut h);
    h
}

pub fn build(id: &str, tier: Tier) -> Option<Check> {
    let q = tier == Tier::Quick;
    let secs = tier.pick(50.0, 1500.0);
    Some(match id {
        "C02" => Check {
            id: "C02",
            jobs: vec![
                bfs(hub("c02-main", |h| { h.arm.c02 = true; h.with_registry = true; h.with_rewards = true; h.budget = tier.pick(1, 2); if !q { h.seeds = vec!["funded", "slashed_unseen", "inflight", "three_vals"]; } }), tier.pick(4, 6), secs),
                bfs(hub("c02-pegfee", |h| { h.arm.c02 = true; h.peg_fee = "0.01"; h.seeds = vec!["slashed"]; h.with_withdraw = false; }), tier.pick(4, 5), secs),
            ],
            rule: "every sequence of <= D hub actions (bond, bond-stSei, unbond x3 amounts, convert, withdraw, slashing check, index update, reward accrual, registry add/remove, time jumps to critical instants, <= F slashing/rogue-transfer deviations) from curated seed states; non-trivial = a transition on which a C02 premise held (a bond-type execution, an unbond, a pricing operation)".into(),
            assumptions: envelope(),
            essential: vec!["c02_bond_delegation_checked", "c02_batch_undelegation_checked", "c02_books_le_delegated_checked", "c02_liquid_balance_checked"],
        },
        "C03" => Check {
            id: "C03",
            jobs: vec![
                bfs(hub("c03-main", |h| { h.arm.c03 = true; h.with_rewards = true; h.budget = tier.pick(1, 2); h.seeds = if q { vec!["funded", "slashed", "rewarded"] } else { vec!["funded", "slashed", "slashed_unseen", "rewarded", "inflight"] }; }), tier.pick(4, 6), secs),
                bfs(hub("c03-pegfee-big", |h| { h.arm.c03 = true; h.peg_fee = "0.005"; h.big = true; h.bond_amounts = vec![1_000_000_000_000_000_000, 1]; h.seeds = vec!["slashed", "rewarded"]; h.with_withdraw = false; }), tier.pick(3, 5), secs),
            ],
            rule: "same exploration as C02 with C03's oracles: the State query is recomputed from totals/supplies/pending requests of the same state in every distinct state; every successful bond, bond-stSei, convert and batch-closing unbond is compared with the exact floor arithmetic; non-trivial = a transition that minted, converted or closed a batch".into(),
            assumptions: envelope(),
            essential: vec!["c03_state_rates_checked", "c03_bond_mint_checked", "c03_bondst_mint_checked", "c03_convert_st_to_b_checked", "c03_convert_b_to_st_checked", "c03_batch_close_checked"],
        },
        "C04" => Check {
            id: "C04",
            jobs: vec![
                bfs(hub("c04-nofee", |h| { h.arm.c04 = true; h.with_rewards = true; h.with_transfers = true; h.seeds = if q { vec!["funded", "slashed", "rewarded"] } else { vec!["funded", "slashed", "rewarded", "inflight", "three_vals"] }; h.budget = tier.pick(1, 2); }), tier.pick(4, 6), secs),
                bfs(hub("c04-pegfee", |h| { h.arm.c04 = true; h.peg_fee = "0.01"; h.seeds = vec!["slashed"]; h.with_registry = true; }), tier.pick(4, 5), secs),
            ],
            rule: "every non-slash transition of the hub-core exploration compares both State-query exchange rates before and after (exact Decimal comparison) whenever the token has claims on both sides; non-trivial = a transition where a rate was compared".into(),
            assumptions: envelope(),
            essential: vec!["c04_bsei_rate_compared", "c04_stsei_rate_compared", "c04_rebond_checked"],
        },
        "C06" => Check {
            id: "C06",
            jobs: vec![
                bfs(hub("c06-main", |h| { h.arm.c06 = true; h.budget = tier.pick(2, 3); h.slash_fracs = if q { vec![(1, 10)] } else { vec![(1, 10), (1, 2), (1, 10000)] }; h.seeds = if q { vec!["funded", "slashed_unseen"] } else { vec!["funded", "slashed_unseen", "inflight", "three_vals"] }; h.with_withdraw = false; }), tier.pick(4, 6), secs),
                bfs(ulc("c06-release", |h| { h.arm.c06 = true; h.budget = tier.pick(2, 3); h.slash_vals = vec!["val1", "val2"]; h.sym = false; h.amounts_abs = vec![100, 37]; h.seeds = vec!["funded", "two_inflight"]; }), tier.pick(5, 7), secs),
                bfs(hub("c06-onepool", |h| { h.arm.c06 = true; h.budget = 2; h.seeds = vec!["fresh"]; h.with_withdraw = false; h.with_convert = false; h.bond_amounts = vec![1000, 3]; h.slash_fracs = vec![(1, 10), (1, 2)]; }), tier.pick(4, 5), secs),
            ],
            rule: "hub-core exploration with a slashing budget F; in every distinct state the recognition function (State query) is compared with the exact pro-rata split of the surviving delegation; every pricing transaction must store exactly recognised pools + its own delta; non-trivial = state or transition with an unrecognised slash, or a pricing op".into(),
            assumptions: envelope(),
            essential: vec!["c06_unrecognised_slash_state", "c06_recognising_op", "c06_op_without_slash", "c06_release_group_checked", "c06_release_group_with_loss_or_surplus"],
        },
        "C01" => Check {
            id: "C01",
            jobs: vec![
                bfs(ulc("c01-lifecycle", |h| { h.arm.c01 = true; h.with_bond = !q; h.with_convert = !q; h.with_slash_bonded = true; h.budget = tier.pick(1, 2); h.slash_vals = vec!["val1", "val2"]; h.seeds = vec!["funded", "slashed", "inflight", "two_inflight"]; if !q { h.users = vec![ALICE, BOB, CAROL]; h.seeds.push("three_users"); } }), tier.pick(5, 7), secs),
                bfs(ulc("c01-pegfee", |h| { h.arm.c01 = true; h.peg_fee = "0.01"; h.seeds = vec!["slashed"]; h.budget = 1; }), tier.pick(5, 7), secs),
                bfs(ulc("c01-dust-stsei", |h| { h.arm.c01 = true; h.users = vec![ALICE, BOB, CAROL]; h.tokens = vec![STSEI]; h.sym = false; h.amounts_abs = vec![1, 100]; h.seeds = if q { vec!["dustgroup"] } else { vec!["dust", "dustgroup"] }; h.with_rogue = false; h.budget = 1; }), tier.pick(6, 10), secs),
                bfs(ulc("c01-dust-bsei", |h| { h.arm.c01 = true; h.users = vec![ALICE, BOB, CAROL]; h.tokens = vec![BSEI]; h.sym = false; h.amounts_abs = vec![1, 100]; h.seeds = vec!["dustgroup_b"]; h.with_rogue = false; h.budget = 1; }), tier.pick(6, 8), secs),
            ],
            rule: "every sequence of <= D unbond/withdraw/time-jump actions (plus bond/convert in the thorough tier) with <= F slashing-of-unbonding / bonded-slash / rogue-transfer deviations, for 2-3 users and both tokens; a narrow one-token 'dust group' scenario (amounts 1 and 100 at rate 0.9) goes deeper to put several batches, including zero-valued ones, into one release group; in every distinct state all users with matured claims withdraw on clones in every order; non-trivial = a release, a paid withdraw, or a probe state with matured claims".into(),
            assumptions: envelope(),
            essential: vec!["c01_release_checked", "c01_withdraw_paid", "c01_probe_states_with_matured_claims", "c01_probe_multi_user_orders", "c01_release_multi_batch", "c01_release_with_zero_valued_batch", "c01_release_after_slash_or_rogue"],
        },
        "C07" => Check {
            id: "C07",
            jobs: vec![
                bfs(ulc("c07-ledger", |h| { h.arm.c07 = true; h.with_send_from = true; h.with_foreign_receive = true; h.seeds = vec!["allowances"]; h.budget = 0; h.users = if q { vec![ALICE, BOB] } else { vec![ALICE, BOB, CAROL] }; }), tier.pick(5, 7), secs),
                bfs(ulc("c07-pegfee", |h| { h.arm.c07 = true; h.peg_fee = "0.01"; h.seeds = vec!["slashed"]; h.budget = 0; h.with_bond = true; }), tier.pick(4, 6), secs),
            ],
            rule: "every sequence of <= D unbonds (Send and allowance-based SendFrom, both tokens, 3 amounts each), withdraws, forged Receive hooks and time jumps for 2-3 users plus a spender; a reference claim ledger carried in the state is compared with UnbondRequests of every known address, CurrentBatch totals, AllHistory totals and every AllHistory page in every distinct state; non-trivial = an accepted unbond or a state with closed batches".into(),
            assumptions: envelope(),
            essential: vec!["c07_unbond_checked", "c07_unbond_via_send_from", "c07_history_batches_checked", "c07_forged_receive", "c07_history_pages"],
        },
        "C08" => {
            let periods: Vec<(u64, u64)> = if q { vec![(10, 30), (3, 3), (0, 1)] } else { vec![(10, 30), (3, 3), (1, 2), (30, 10), (0, 1)] };
            Check {
                id: "C08",
                jobs: periods
                    .into_iter()
                    .map(|(e, u)| bfs(ulc(&format!("c08-E{}-U{}", e, u), |h| { h.arm.c08 = true; h.epoch = e; h.unbonding = u; h.full_time = true; h.sym = false; h.amounts_abs = vec![1, 100]; h.seeds = vec!["funded"]; h.budget = 0; }), tier.pick(5, 7), secs / 3.0))
                    .collect(),
                rule: "for each (epoch, unbonding) period configuration every sequence of <= D unbond(1|100)/withdraw actions of 2 users interleaved with the full time-region alphabet (+1 second and every critical instant c-1, c, c+1 of the epoch boundary and of every pending release); every transition compares the history before/after and checks the epoch and unbonding comparisons at the exact boundary seconds; non-trivial = batch close, release transition, in-epoch unbond or a paid withdraw".into(),
                assumptions: envelope(),
                essential: vec!["c08_batch_close_checked", "c08_release_transition", "c08_unbond_within_epoch", "c08_withdraw_timelock_checked", "c08_released_entry_compared"],
            }
        }
        "C13" => Check {
            id: "C13",
            jobs: vec![
                bfs(hub("c13-main", |h| { h.arm.c13 = true; h.with_registry = true; h.with_rewards = true; h.with_convert = false; h.seeds = if q { vec!["funded", "three_vals", "one_val"] } else { vec!["funded", "three_vals", "one_val", "inflight", "slashed_unseen"] }; }), tier.pick(4, 6), secs),
            ],
            rule: "hub-core exploration with AddValidator/RemoveValidator for val1 and val3 enabled in every state (pending rewards, in-flight batches, blocked redelegation after a previous removal, re-addition); every RemoveValidator by the owner is checked against the staking ledger; non-trivial = a removal checked".into(),
            assumptions: envelope(),
            essential: vec!["c13_removal_checked", "c13_redelegation_checked", "c13_redelegation_blocked", "c13_last_validator"],
        },
        _ => return None,
    })
}

pub fn selftest() -> i32 {
    0
}
