//! Property table: which scenarios, bounds and oracles decide each property.
use crate::hubcore::*;
use crate::unbondlc::UnbondLc;
use crate::fee::Fee;
use crate::reward::Reward;
use crate::token::Token;
use crate::enumer::{C12Enum, C17Enum};
use crate::runner::*;
use crate::chain::*;
use crate::deploy::*;

fn envelope() -> Vec<String> {
    vec![
        "operating envelope of DESIGN.md section 4 (E1 magnitudes <= 1e18, E2 chain unbonding time == hub unbonding_period with begin-block maturity, E3 trusted wiring, E4 slashing fractions, E5 principals)".into(),
        "chain model of DESIGN.md section 3.1 is the trusted base (bank, staking, distribution, wasm dispatch); gas, share truncation and entry caps are not modelled".into(),
        "amounts are explored at lattice points and state-relative fractions, not for every integer".into(),
    ]
}

fn ulc(label: &str, f: impl FnOnce(&mut UnbondLc)) -> UnbondLc {
    let mut h = UnbondLc::base(label);
    f(&mut h);
    h
}

fn rw(label: &str, f: impl FnOnce(&mut Reward)) -> Reward {
    let mut h = Reward::base(label);
    f(&mut h);
    h
}

fn hub(label: &str, f: impl FnOnce(&mut HubCore)) -> HubCore {
    let mut h = HubCore::base(label);
    f(&mut h);
    h
}

pub fn build(id: &str, tier: Tier) -> Option<Check> {
    let q = tier == Tier::Quick;
    let secs = tier.pick(400.0, 2000.0);
    Some(match id {
        "C02" => Check {
            id: "C02",
            jobs: vec![
                bfs(hub("c02-main", |h| { h.arm.c02 = true; h.with_registry = true; h.with_rewards = true; h.budget = tier.pick(1, 2); if !q { h.seeds = vec!["funded", "slashed_unseen", "inflight", "three_vals"]; } }), tier.pick(4, 5), secs),
                bfs(hub("c02-dust-pool", |h| { h.arm.c02 = true; h.seeds = vec!["dust_pool"]; h.budget = 1; h.slash_fracs = vec![(1, 2), (1, 10)]; h.with_withdraw = false; h.bond_amounts = vec![1]; }), tier.pick(4, 5), secs),
                bfs(hub("c02-pegfee", |h| { h.arm.c02 = true; h.peg_fee = "0.01"; h.seeds = vec!["slashed"]; h.with_withdraw = false; }), tier.pick(4, 5), secs),
            ],
            rule: "every sequence of <= D hub actions (bond, bond-stSei, unbond x3 amounts, convert, withdraw, slashing check, index update, reward accrual, registry add/remove, time jumps to critical instants, <= F slashing/rogue-transfer deviations) from curated seed states; non-trivial = a transition on which a C02 premise held (a bond-type execution, an unbond, a pricing operation)".into(),
            assumptions: envelope(),
            essential: vec!["c02_bond_delegation_checked", "c02_batch_undelegation_checked", "c02_books_le_delegated_checked", "c02_liquid_balance_checked"],
        },
        "C03" => Check {
            id: "C03",
            jobs: vec![
                bfs(hub("c03-main", |h| { h.arm.c03 = true; h.with_rewards = true; h.budget = tier.pick(1, 2); h.seeds = if q { vec!["funded", "slashed", "rewarded"] } else { vec!["funded", "slashed", "slashed_unseen", "rewarded", "inflight"] }; }), tier.pick(4, 5), secs),
                bfs(hub("c03-threshold-below-one", |h| { h.arm.c03 = true; h.peg_fee = "0.01"; h.threshold = "0.9"; h.seeds = vec!["slashed_unseen", "rewarded"]; h.with_withdraw = false; h.with_transfers = true; h.budget = 1; h.slash_fracs = vec![(1, 20)]; }), tier.pick(3, 5), secs),
                bfs(hub("c03-pegfee-big", |h| { h.arm.c03 = true; h.peg_fee = "0.005"; h.big = true; h.bond_amounts = vec![1_000_000_000_000_000_000, 1]; h.seeds = vec!["slashed", "rewarded"]; h.with_withdraw = false; }), tier.pick(3, 5), secs),
            ],
            rule: "same exploration as C02 with C03's oracles: the State query is recomputed from totals/supplies/pending requests of the same state in every distinct state; every successful bond, bond-stSei, convert and batch-closing unbond is compared with the exact floor arithmetic; non-trivial = a transition that minted, converted or closed a batch".into(),
            assumptions: envelope(),
            essential: vec!["c03_zero_payment", "c03_state_rates_checked", "c03_bond_mint_checked", "c03_bondst_mint_checked", "c03_convert_st_to_b_checked", "c03_convert_b_to_st_checked", "c03_batch_close_checked"],
        },
        "C04" => Check {
            id: "C04",
            jobs: vec![
                bfs(hub("c04-nofee", |h| { h.arm.c04 = true; h.with_rewards = true; h.with_transfers = true; h.with_burn_from = true; h.seeds = if q { vec!["funded", "slashed", "rewarded", "allowances"] } else { vec!["funded", "slashed", "rewarded", "inflight", "three_vals", "allowances"] }; h.budget = tier.pick(1, 2); }), tier.pick(4, 5), secs),
                bfs(hub("c04-pegfee", |h| { h.arm.c04 = true; h.peg_fee = "0.01"; h.seeds = vec!["slashed"]; h.with_registry = true; }), tier.pick(4, 5), secs),
                bfs(hub("c04-big", |h| { h.arm.c04 = true; h.big = true; h.with_rewards = true; h.bond_amounts = vec![1_000_000_007, 1_000_000_000_000_000_000]; h.seeds = vec!["slashed", "rewarded"]; h.with_withdraw = false; h.budget = 0; }), tier.pick(3, 4), secs),
            ],
            rule: "every non-slash transition of the hub-core exploration compares both State-query exchange rates before and after (exact Decimal comparison) whenever the token has claims on both sides; non-trivial = a transition where a rate was compared".into(),
            assumptions: envelope(),
            essential: vec!["c04_bsei_rate_compared", "c04_stsei_rate_compared", "c04_rebond_checked", "c04_allowance_burn_compared"],
        },
        "C05" => Check {
            id: "C05",
            jobs: vec![
                bfs(Fee { exact: vec![("0.5", (1, 2)), ("0.9", (1, 10))], ..Fee::base("c05-configs") }, tier.pick(3, 5), secs),
                bfs(Fee { with_param_update: true, fees: vec!["0.005"], thresholds: vec!["0.95"], slashes: vec![(1, 100)], ..Fee::base("c05-partial-param-update") }, tier.pick(3, 4), secs),
                bfs(Fee { rewarded: true, fees: vec!["0.005", "0.25", "1"], thresholds: vec!["1", "0.95"], ..Fee::base("c05-rewarded") }, tier.pick(3, 4), secs),
                bfs(Fee { scale: 1_000_000_000_000_000, slashes: vec![(1, 10000), (1, 2)], fees: vec!["0.005", "1"], thresholds: vec!["1", "0.95"], ..Fee::base("c05-1e15") }, tier.pick(3, 4), secs),
            ],
            rule: "start states = every (peg_recovery_fee in {0,0.005,0.5,1}) x (er_threshold in {0,0.95,1}) x (slash 10%, 1%) deployment with both pools funded (and a 1e15-scaled instance with slashes 0.01% and 50%); every sequence of <= D fee-path transactions (bond 1/100/5000, unbond and convert of 1/half/all of the balance, both directions) by 2 users; every successful one is compared with the exact no-fee amount, the fee bound and the post-state peg; non-trivial = a fee path executed".into(),
            assumptions: envelope(),
            essential: vec!["c05_fee_path_checked", "c05_no_fee_at_or_above_threshold", "c05_fee_charged_paths", "c05_positive_fee", "c05_peg_overshoot_checked", "c05_rate_exactly_on_threshold", "c05_fee_with_stsei_rate_above_one"],
        },
        "C06" => Check {
            id: "C06",
            jobs: vec![
                bfs(hub("c06-main", |h| { h.arm.c06 = true; h.with_rewards = true; h.budget = tier.pick(2, 3); h.slash_fracs = if q { vec![(1, 10)] } else { vec![(1, 10), (1, 2), (1, 10000)] }; h.seeds = if q { vec!["funded", "slashed_unseen"] } else { vec!["funded", "slashed_unseen", "inflight", "three_vals"] }; h.with_withdraw = false; }), tier.pick(4, 5), secs),
                bfs(ulc("c06-release", |h| { h.arm.c06 = true; h.budget = tier.pick(2, 3); h.slash_vals = vec!["val1", "val2"]; h.sym = false; h.amounts_abs = vec![100, 37]; h.seeds = vec!["funded", "two_inflight"]; h.unbonding_slash = vec![(1, 2), (1, 50)]; }), tier.pick(5, 7), secs),
                bfs(hub("c06-onepool", |h| { h.arm.c06 = true; h.budget = 2; h.seeds = vec!["fresh"]; h.with_withdraw = false; h.with_convert = false; h.bond_amounts = vec![1000, 3]; h.slash_fracs = vec![(1, 10), (1, 2)]; }), tier.pick(4, 5), secs),
            ],
            rule: "hub-core exploration with a slashing budget F; in every distinct state the recognition function (State query) is compared with the exact pro-rata split of the surviving delegation; every pricing transaction must store exactly recognised pools + its own delta; non-trivial = state or transition with an unrecognised slash, or a pricing op".into(),
            assumptions: envelope(),
            essential: vec!["c06_unrecognised_slash_state", "c06_recognising_op", "c06_op_without_slash", "c06_release_group_checked", "c06_release_group_with_loss_or_surplus"],
        },
        "C01" => Check {
            id: "C01",
            jobs: vec![
                bfs(ulc("c01-lifecycle", |h| { h.arm.c01 = true; h.with_bond = !q; h.with_convert = !q; h.with_slash_bonded = true; h.budget = tier.pick(1, 2); h.slash_vals = vec!["val1", "val2"]; h.seeds = vec!["funded", "slashed", "inflight", "two_inflight"]; if !q { h.users = vec![ALICE, BOB, CAROL]; h.seeds.push("three_users"); } }), tier.pick(4, 5), secs),
                bfs(ulc("c01-long-history", |h| { h.arm.c01 = true; h.seeds = vec!["ten_batches", "zero_batch"]; h.sym = false; h.amounts_abs = vec![3]; h.budget = 1; h.slash_vals = vec!["val1"]; }), tier.pick(4, 6), secs),
                bfs(ulc("c01-1e15", |h| { h.arm.c01 = true; h.arm.c06 = true; h.scale = 1_000_000_000_000_000; h.sym = false; h.amounts_abs = vec![100, 37]; h.seeds = vec!["two_inflight", "slashed"]; h.slash_vals = vec!["val1", "val2"]; h.budget = tier.pick(2, 3); h.with_rogue = true; }), tier.pick(4, 6), secs),
                bfs(ulc("c01-pegfee", |h| { h.arm.c01 = true; h.peg_fee = "0.01"; h.seeds = vec!["slashed"]; h.budget = 1; }), tier.pick(5, 7), secs),
                bfs(ulc("c01-dust-stsei", |h| { h.arm.c01 = true; h.users = vec![ALICE, BOB, CAROL]; h.tokens = vec![STSEI]; h.sym = false; h.amounts_abs = vec![1, 100]; h.seeds = if q { vec!["dustgroup"] } else { vec!["dust", "dustgroup"] }; h.with_rogue = false; h.budget = 1; }), tier.pick(6, 9), secs),
                bfs(ulc("c01-dust-bsei", |h| { h.arm.c01 = true; h.users = vec![ALICE, BOB, CAROL]; h.tokens = vec![BSEI]; h.sym = false; h.amounts_abs = vec![1, 100]; h.seeds = vec!["dustgroup_b"]; h.with_rogue = false; h.budget = 1; }), tier.pick(6, 8), secs),
            ],
            rule: "every sequence of <= D unbond/withdraw/time-jump actions (plus bond/convert in the thorough tier) with <= F slashing-of-unbonding / bonded-slash / rogue-transfer deviations, for 2-3 users and both tokens; a narrow one-token 'dust group' scenario (amounts 1 and 100 at rate 0.9) goes deeper to put several batches, including zero-valued ones, into one release group; in every distinct state all users with matured claims withdraw on clones in every order; non-trivial = a release, a paid withdraw, or a probe state with matured claims".into(),
            assumptions: envelope(),
            essential: vec!["c01_group_settled", "c01_release_checked", "c01_withdraw_paid", "c01_probe_states_with_matured_claims", "c01_probe_multi_user_orders", "c01_release_multi_batch", "c01_release_with_zero_valued_batch", "c01_release_after_slash_or_rogue"],
        },
        "C07" => Check {
            id: "C07",
            jobs: vec![
                bfs(ulc("c07-ledger", |h| { h.arm.c07 = true; h.with_send_from = true; h.with_foreign_receive = true; h.seeds = vec!["allowances"]; h.budget = 0; h.users = if q { vec![ALICE, BOB] } else { vec![ALICE, BOB, CAROL] }; }), tier.pick(5, 7), secs),
                bfs(ulc("c07-long-history", |h| { h.arm.c07 = true; h.seeds = vec!["ten_batches"]; h.sym = false; h.amounts_abs = vec![3]; h.budget = 0; }), tier.pick(3, 5), secs),
                bfs(ulc("c07-pegfee", |h| { h.arm.c07 = true; h.peg_fee = "0.01"; h.seeds = vec!["slashed"]; h.budget = 0; h.with_bond = true; }), tier.pick(4, 6), secs),
            ],
            rule: "every sequence of <= D unbonds (Send and allowance-based SendFrom, both tokens, 3 amounts each), withdraws, forged Receive hooks and time jumps for 2-3 users plus a spender; a reference claim ledger carried in the state is compared with UnbondRequests of every known address, CurrentBatch totals, AllHistory totals and every AllHistory page in every distinct state; non-trivial = an accepted unbond or a state with closed batches".into(),
            assumptions: envelope(),
            essential: vec!["c07_unbond_checked", "c07_unbond_via_send_from", "c07_history_batches_checked", "c07_forged_receive", "c07_history_pages"],
        },
        "C08" => {
            let periods: Vec<(u64, u64)> = if q { vec![(10, 30), (3, 3), (0, 1)] } else { vec![(10, 30), (3, 3), (1, 2), (30, 10), (0, 1)] };
            Check {
                id: "C08",
                jobs: periods
                    .into_iter()
                    .map(|(e, u)| bfs(ulc(&format!("c08-E{}-U{}", e, u), |h| { h.arm.c08 = true; h.epoch = e; h.unbonding = u; h.full_time = true; h.sym = false; h.amounts_abs = vec![1, 100]; h.seeds = if e == 10 { vec!["funded", "slashed"] } else { vec!["funded"] }; h.budget = 0; }), tier.pick(6, if e == 10 { 7 } else { 8 }), secs / 3.0))
                    .collect(),
                rule: "for each (epoch, unbonding) period configuration every sequence of <= D unbond(1|100)/withdraw actions of 2 users interleaved with the full time-region alphabet (+1 second and every critical instant c-1, c, c+1 of the epoch boundary and of every pending release); every transition compares the history before/after and checks the epoch and unbonding comparisons at the exact boundary seconds; non-trivial = batch close, release transition, in-epoch unbond or a paid withdraw".into(),
                assumptions: envelope(),
                essential: vec!["c08_batch_close_checked", "c08_release_transition", "c08_unbond_within_epoch", "c08_withdraw_timelock_checked", "c08_released_entry_compared"],
            }
        }
        "C09" => Check {
            id: "C09",
            jobs: vec![
                bfs(hub("c09-exits", |h| { h.arm.c09 = true; h.with_rewards = true; h.with_transfers = true; h.budget = tier.pick(1, 2); h.slash_fracs = vec![(1, 10), (1, 2)]; h.seeds = if q { vec!["funded", "slashed", "inflight"] } else { vec!["funded", "slashed", "slashed_unseen", "inflight", "rewarded", "three_vals"] }; }), tier.pick(3, 4), secs),
                bfs(hub("c09-long-history", |h| { h.arm.c09 = true; h.seeds = vec!["ten_batches"]; h.budget = 0; h.with_convert = false; h.bond_amounts = vec![100]; }), tier.pick(2, 3), secs),
                bfs(ulc("c09-matured-claims", |h| { h.arm.c09 = true; h.seeds = vec!["two_inflight", "ten_batches", "slashed", "zero_batch"]; h.sym = false; h.amounts_abs = vec![3]; h.budget = 1; h.slash_vals = vec!["val1", "val2"]; h.unbonding_slash = vec![(1, 2), (1, 100)]; h.with_rogue = false; }), tier.pick(4, 6), secs),
                bfs(hub("c09-pegfee", |h| { h.arm.c09 = true; h.peg_fee = "0.01"; h.seeds = vec!["slashed"]; h.budget = 1; }), tier.pick(3, 4), secs),
            ],
            rule: "in every distinct state of a hub-core exploration (bond, unbond, convert, withdraw, transfers, reward accrual and index updates, time, <= F slashing deviations incl. 50% slashes and full pool drains) a probe runs on clones: every holder unbonds one unit and its whole balance of each token; the whole-balance exit is continued (jump past the epoch, a fresh holder's one-unit unbond must close the batch, jump past the unbonding period, withdraw); and every user-facing transition (bond, unbond, convert, withdraw, slashing check, token transfer/send, reward claim) is re-executed under the 8 other swap/oracle stub-mode combinations (ok/fail/garbage) and must give the identical result, effects and post-state; non-trivial = a state with exit probes or a transition with stub-mode products".into(),
            assumptions: envelope(),
            essential: vec!["c09_exit_probes", "c09_exit_completed", "c09_stub_mode_products", "c09_matured_claim_probes", "c09_unbond_after_epoch_checked"],
        },
        "C10" => Check {
            id: "C10",
            jobs: {
                let mut j: Vec<Box<dyn Runnable>> = crate::auth::OWNED
                    .iter()
                    .map(|k| bfs(crate::auth::Auth { contract: k, seeds: vec!["fresh", "funded", "evolved", "no_airdrop_registry", "dispatcher_replaced"] }, tier.pick(4, 5), secs / 4.0))
                    .collect();
                j.push(bfs(crate::auth::Wiring, tier.pick(5, 7), secs / 4.0));
                j
            },
            rule: "for each owned contract (hub, dispatcher, reward, registry) a BFS over its two-step ownership machine (SetOwner(x) for x in {nominee, stranger, old owner} and AcceptOwnership, each by owner / nominee / stranger; fresh, nominated, completed, abandoned, re-nominated and handed-back states) from fresh and evolved business states; in every distinct state the full matrix of 44 privileged message shapes of all six contracts x 16 sender classes (owner, nominee, ex-owner, each sibling contract, swap, oracle, airdrop registry, keeper, updater, users, the contract itself) is executed on clones: a sender outside the designated principals must be rejected without any state change, a designated principal must never be rejected with an authorisation error; non-trivial = matrix cells executed".into(),
            assumptions: vec!["the authorisation table is written from the property text (owner-only, nominee-only, dispatcher / registry / hub / token / airdrop-registry-only messages)".into(), "rejected transactions are rolled back by the chain (DESIGN.md 3.1)".into()],
            essential: vec!["c10_ownership_steps", "c10_authorised_cells", "c10_unauthorised_cells", "c10_authorised_cells_succeeded", "c10_wiring_rejections_expected", "c10_wiring_accepts_expected"],
        },
        "C11" => Check {
            id: "C11",
            jobs: vec![
                bfs(hub("c11-pause-probes", |h| { h.arm.c11 = true; h.with_rewards = true; h.with_registry = true; h.budget = 1; h.seeds = if q { vec!["funded", "inflight"] } else { vec!["funded", "inflight", "slashed_unseen", "rewarded"] }; }), tier.pick(3, 4), secs),
                bfs(crate::pause::Legacy { entries: vec![0, 1, 3], with_v2: true }, tier.pick(5, 8), secs),
            ],
            rule: "in every distinct state of a hub exploration (bond, unbond, convert, withdraw, index update, accrual, registry, time, slashing; depth 2 quick / 3 thorough) the owner pauses a clone; then (a) every hub query must answer as before, (b) the full matrix of 14 hub message shapes x 11 sender classes must fail without any change, as must every path entering the hub through a token Send hook, the registry or a burn, (c) UpdateParams by non-owners is refused and the wait-list migration is a no-op, (d) unpausing either way restores the pre-pause state byte for byte (pause-flag representation aside) and (e) every action of the alphabet gives the identical result and successor in the original and in the cycled world (lock-step product); a second scenario seeds 0/1/3 legacy wait-list entries (as the repository's test_pause does) and explores unpause/migrate/pause sequences to a fixpoint; non-trivial = states probed".into(),
            assumptions: envelope(),
            essential: vec!["c11_states_probed", "c11_paused_matrix_cells", "c11_paused_entering_paths", "c11_cycles_compared", "c11_product_steps", "c11_legacy_unpause_attempts", "c11_legacy_migrations", "c11_legacy_states_with_entries"],
        },
        "C12" => Check {
            id: "C12",
            jobs: vec![
                Box::new(C12Enum { max_len: tier.pick(5, 7), max_val: tier.pick(5, 6) }),
                bfs(hub("c12-end-to-end", |h| { h.arm.c12 = true; h.with_registry = true; h.with_convert = false; h.with_withdraw = false; h.bond_amounts = vec![100, 3, 1]; h.seeds = vec!["three_vals", "uneven_vals", "funded"]; h.budget = 1; }), tier.pick(4, 5), secs),
            ],
            rule: "every validator list of length 0..=L with delegations in 0..=V in every order (L=5,V=5 quick; L=7,V=6 thorough), every amount 0..=sum+6, plus the same box scaled by 1e6+3, 1e12+7 and ~1e18/(L*V) with +-1 perturbations of delegations and amounts, through the public calculate_delegations / calculate_undelegations; each call under a 30 s watchdog; plus the plans as the hub applies them: in a hub-core exploration with registry changes (3 validators, a validator added after stake exists, slashing) every bond's Delegate messages are judged against the registered validators' delegations and every batch-closing unbond's Undelegate messages against all of the hub's delegations, with the same four predicates; non-trivial = accepted plan with amount > 0".into(),
            assumptions: vec!["the two planning functions are pure; totals stay below 2^127 (u128-safe range of the property)".into()],
            essential: vec!["c12_empty_list", "c12_lists_with_zero", "c12_unsorted_lists", "c12_undelegate_rejected", "c12_large_n_lists", "c12_hub_delegation_plan_checked", "c12_hub_undelegation_plan_checked", "c12_hub_bond_with_a_validator_above_the_share"],
        },
        "C14" => Check {
            id: "C14",
            jobs: vec![
                bfs(rw("c14-main", |h| { h.arm.c14 = true; h.seeds = vec!["holders", "empty"]; if !q { h.users = vec![ALICE, BOB, CAROL]; } }), tier.pick(5, 6), secs),
                bfs(rw("c14-big", |h| { h.arm.c14 = true; h.seeds = vec!["big"]; h.rewards = vec![1, 1_000_000_000_000_000_000]; h.bond_amounts = vec![10_000_000_000_000_000]; h.with_hub_ops = false; }), tier.pick(5, 6), secs),
                bfs(rw("c14-allowance", |h| { h.arm.c14 = true; h.seeds = vec!["allowances"]; h.with_allowance = true; h.rewards = vec![19]; }), tier.pick(4, 5), secs),
            ],
            rule: "every sequence of <= D bSei operations (mint via bond, transfer incl. to self, send-to-hub unbond/convert, allowance-based transfer/send/burn), reward deliveries {7,1000} (and {1,1e18} against a 1e18 holder) and claims (to self / to another recipient) by 2-3 holders plus a spender, including deliveries while nobody holds bSei; solvency and completeness are recomputed in 1e-18 fixed point from the Holders and State queries in every distinct state, every claim is compared with the exact whole/fraction split; non-trivial = a state with accrued rewards or a claim".into(),
            assumptions: envelope(),
            essential: vec!["c14_states_with_accrued_rewards", "c14_claims_checked", "c14_claim_paid", "c14_claim_of_nothing"],
        },
        "C15" => Check {
            id: "C15",
            jobs: vec![
                bfs(rw("c15-ledger", |h| { h.arm.c15 = true; h.arm.c14 = true; h.seeds = vec!["holders", "empty"]; if !q { h.users = vec![ALICE, BOB, CAROL]; } }), tier.pick(5, 6), secs),
                bfs(rw("c15-allowance", |h| { h.arm.c15 = true; h.seeds = vec!["allowances"]; h.with_allowance = true; h.with_sink = true; h.rewards = vec![19]; }), tier.pick(4, 5), secs),
                bfs(rw("c15-diamonds", |h| { h.arm.diamonds = true; h.seeds = vec!["allowances"]; h.with_allowance = true; h.rewards = vec![19]; }), tier.pick(2, 3), secs),
                bfs(rw("c15-split-2-1", |h| { h.seeds = vec!["split"]; h.split = Some((2, 1)); h.rewards = vec![7, 1_000_000_000_000_000_000]; }), tier.pick(6, 8), secs),
                bfs(hub("c15-pipeline", |h| { h.arm.c15 = true; h.with_rewards = true; h.with_transfers = true; h.with_withdraw = false; h.bond_amounts = vec![100]; h.seeds = vec!["funded", "bsei_only", "pending_rewards"]; h.budget = 0; }), tier.pick(4, 5), secs),
                bfs(rw("c15-split-big", |h| { h.seeds = vec!["split"]; h.split = Some((999_999_999_999_999_999, 1)); h.rewards = vec![1, 1000]; }), tier.pick(6, 7), secs),
            ],
            rule: "(i) reference ledger: at each delivery every holder's reference accrual grows by balance x distributed / total (floor and ceiling bounds in 1e-18 units) and accrued + claimed must stay within it; (ii) frame: every non-delivery transition leaves every holder's exact accrued reward unchanged (own claim excepted); (iii) commutation diamonds: in every state up to depth D every pair of enabled operations of different actors is run in both orders and the reward contract's storage must be byte-identical; (iv) product exploration: a world where alice holds X in one account and a world where the same X is split over two accounts run in lock-step under identical operations of everyone else; accrual must be equal; (v) the real pipeline: in a hub-core exploration every UpdateGlobalIndex that runs through hub, dispatcher, swap and reward contract must let every holder accrue its token balance x delivered / supply. non-trivial = transitions where one of these compared something".into(),
            assumptions: envelope(),
            essential: vec!["c15_frame_checked", "c15_reference_ledger_checked", "c15_diamond_pairs_compared", "c15_product_steps", "c15_pipeline_update_with_delivery"],
        },
        "C16" => Check {
            id: "C16",
            jobs: vec![
                bfs(rw("c16-all-entry-points", |h| { h.arm.c16 = true; h.seeds = vec!["allowances", "empty"]; h.with_allowance = true; h.with_sink = true; h.rewards = vec![19]; if !q { h.users = vec![ALICE, BOB, CAROL]; } }), tier.pick(4, 5), secs),
                bfs(rw("c16-hub-paths", |h| { h.arm.c16 = true; h.seeds = vec!["holders"]; h.bond_amounts = vec![3, 900_000_000_000_000_000]; }), tier.pick(5, 6), secs),
            ],
            rule: "every sequence of <= D bSei entry points (mint via bond, burn via hub unbond/convert, transfer incl. to self, send to the hub with both hooks, send to a non-hub contract, increase/decrease allowance, TransferFrom incl. recipient = owner and amount 0, SendFrom, BurnFrom) by holders, a spender and the hub, starting from a token without initial balances; in every distinct state the reward contract's Holders list is compared with the token's AllAccounts/Balance for every address and the totals are compared; non-trivial = every distinct state".into(),
            assumptions: envelope(),
            essential: vec!["c16_mirror_states", "c16_states_with_two_or_more_holders"],
        },
        "C17" => {
            let bal: Vec<u128> = if q { vec![0, 1, 2, 3, 10, 999, 1_000_003, 1_000_000_000_000_000_000] } else { vec![0, 1, 2, 3, 7, 10, 19, 20, 999, 1_000_003, 1_000_000_000_007, 1_000_000_000_000_000_000] };
            let bonded: Vec<u128> = if q { vec![0, 1, 2, 3, 1_000_000_000_000_000_000] } else { vec![0, 1, 2, 3, 1000, 1_000_003, 1_000_000_000_000_000_000] };
            let prices = if q { vec!["0.000001", "0.001", "0.75", "1", "1.5", "1000", "1000000"] } else { vec!["0.000001", "0.001", "0.3", "0.75", "1", "1.5", "7", "1000", "1000000"] };
            let rates = if q { vec!["0", "0.000000000000000001", "0.05", "0.5", "0.999999999999999999", "1"] } else { vec!["0", "0.000000000000000001", "0.01", "0.05", "0.5", "0.999999999999999999", "1"] };
            Check {
                id: "C17",
                jobs: vec![
                    Box::new(C17Enum { balances: bal.clone(), bonded: bonded.clone(), prices: prices.clone(), rates: rates.clone(), third_denom: vec![0], label: "box".into(), duplicate_denom: None }),
                    Box::new(C17Enum { balances: vec![0, 3, 1000, 1_000_000_000_000_000_000], bonded: vec![0, 2, 1_000_003], prices: vec!["0.75", "1", "1000"], rates: vec!["0.05", "1"], third_denom: vec![0, 5, 1_000_000], label: "third-denom".into(), duplicate_denom: None }),
                    Box::new(C17Enum { balances: vec![0, 3, 200, 1_000_003], bonded: vec![0, 1, 3], prices: vec!["0.75", "1", "32"], rates: vec!["0.05"], third_denom: vec![0, 500], label: "duplicate-swap-denom".into(), duplicate_denom: Some(USEI) }),
                    bfs(crate::params::Params::for_c17(), tier.pick(3, 4), secs),
                    bfs(hub("c17-hub-split", |h| { h.arm.c17 = true; h.with_rewards = true; h.with_convert = false; h.with_withdraw = false; h.bond_amounts = vec![100]; h.seeds = vec!["rewarded", "slashed", "inflight"]; h.budget = 0; }), tier.pick(3, 4), secs),
                ],
                rule: "every tuple (dispatcher usei balance, kusd balance, stSei bonded, bSei bonded, oracle price, keeper rate) of the stated box (and a smaller box with a third swap denom) is run through the real SwapToRewardDenom + DispatchRewards entry points (sent by the hub address) on the integrated deployment with the stub swap/oracle; plus a BFS over dispatcher configuration updates (shared with C20) for 'keeper rate never above 1'; plus the hub's side of the interaction: in a hub-core exploration (stSei rate above and below par, pending unbond requests) every complete UpdateGlobalIndex must leave the stSei side total x stSei bonded / total bonded; non-trivial = a tuple where something was swapped or dispatched".into(),
                assumptions: vec!["swap and oracle behave as the stubs of DESIGN.md section 3.1 (swap executes at the oracle price, floor rounding)".into(), "bank module rejects zero-amount coins in MsgSend (stated in the property)".into(), "swap_denoms contains both reward denoms (E3)".into()],
                essential: vec!["c17_sell_usei", "c17_sell_kusd", "c17_dispatch_ok", "c20_dispatcher_rate_checked", "c17_hub_split_checked", "c19_split_with_stsei_rate_off_par"],
            }
        }
        "C13" => Check {
            id: "C13",
            jobs: vec![
                bfs(hub("c13-main", |h| { h.arm.c13 = true; h.with_registry = true; h.with_rewards = true; h.with_convert = false; h.seeds = if q { vec!["funded", "three_vals", "one_val", "blocked_removal"] } else { vec!["funded", "three_vals", "one_val", "blocked_removal", "inflight", "slashed_unseen"] }; }), tier.pick(4, 5), secs),
            ],
            rule: "hub-core exploration with AddValidator/RemoveValidator for val1 and val3 enabled in every state (pending rewards, in-flight batches, blocked redelegation after a previous removal, re-addition); every RemoveValidator by the owner is checked against the staking ledger; non-trivial = a removal checked".into(),
            assumptions: envelope(),
            essential: vec!["c13_removal_checked", "c13_redelegation_checked", "c13_redelegation_blocked", "c13_last_validator", "c13_redelegations_followup_checked", "c13_bond_targets_checked"],
        },
        "C18" => {
            let mut jobs = vec![];
            for tok in [BSEI, STSEI] {
                let mut sweep = Token::new(tok, "instantiate-sweep");
                sweep.sweep_len = Some(3);
                sweep.rich = false;
                jobs.push(bfs(sweep, tier.pick(2, 3), secs / 4.0));
                let mut ops = Token::new(tok, "ops");
                ops.seeds = vec![vec![], vec![(ALICE, 5), (BOB, 1)]];
                jobs.push(bfs(ops, tier.pick(5, 7), secs / 2.0));
            }
            Check {
                id: "C18",
                jobs,
                rule: "per token (bSei on cw20-legacy, stSei on cw20-base): start states = every instantiate message whose initial_balances is a list of length 0..=3 over {alice, bob} x {0,1,5} (repeated addresses included; rejected messages create no state), explored 1-2 steps; plus every sequence of <= D calls of every cw20 entry point (transfer, send to hub / non-hub, mint and burn by hub / holder / stranger, increase and decrease allowance with every expiration shape around the current block, TransferFrom / SendFrom / BurnFrom by the spender and by strangers, amounts 0, 1, 2, all, all+1, block advance) from two seeds; non-trivial = every distinct state (conservation) and every successful transaction (supply delta, allowance ledger)".into(),
                assumptions: envelope(),
                essential: vec!["c18_states", "c18_supply_delta_checked", "c18_allowance_spend_checked", "c18_burn_triggers_check_slashing", "c18_rates_after_burn_checked", "c18_mint_attempts", "c18_burn_attempts"],
            }
        }
        "C19" => {
            let mut jobs = vec![];
            let cfgs: Vec<(&'static str, &'static str)> = if q { vec![("0.05", "1"), ("0.5", "0.75")] } else { vec![("0.05", "1"), ("0.5", "0.75"), ("0.05", "1.5"), ("0", "1"), ("1", "1")] };
            for (kr, pr) in cfgs {
                jobs.push(bfs(
                    hub(&format!("c19-keeper{}-price{}", kr, pr), |h| {
                        h.arm.c19 = true;
                        h.keeper_rate = kr;
                        h.price = pr;
                        h.with_rewards = true;
                        h.with_registry = true;
                        h.with_convert = false;
                        h.with_withdraw = false;
                        h.bond_amounts = vec![100];
                        h.budget = 1;
                        h.seeds = if q { vec!["funded", "inflight", "bsei_all_pending", "bsei_only", "stsei_only", "pending_rewards"] } else { vec!["funded", "inflight", "bsei_all_pending", "bsei_only", "stsei_only", "pending_rewards", "three_vals", "slashed_unseen"] };
                        h.reward_amounts = vec![("val1", USEI, 1000), ("val2", KUSD, 400), ("val1", USEI, 400_000_000_000_000_000), ("val2", USEI, 7), ("val1", KUSD, 19), ("val2", USEI, 1)];
                    }),
                    tier.pick(4, 5),
                    secs / 2.0,
                ));
            }
            Check {
                id: "C19",
                jobs,
                rule: "hub-core exploration (bond, unbond, time, slashing, registry add/remove) with reward accrual of 1, 7, 19, 400, 1000 and 4e17 coins of either denom on either validator, under (keeper rate, price) configurations {(0.05,1),(0.5,0.75)} quick plus {(0.05,1.5),(0,1),(1,1)} thorough; UpdateGlobalIndex by the updater (and the one issued by the registry during RemoveValidator) is available in every state and every execution of it is checked against the bank, staking and distribution ledgers and the reward contract's holder accounting; non-trivial = an index update checked or failed".into(),
                assumptions: envelope(),
                essential: vec!["c19_update_checked", "c19_update_with_pending_rewards", "c19_update_via_registry", "c19_rewards_reached_bsei_holders"],
            }
        }
        "C20" => Check {
            id: "C20",
            jobs: vec![
                bfs(crate::params::Params::hub(), tier.pick(3, 6), secs),
                bfs(crate::params::Params::dispatcher(), tier.pick(3, 4), secs),
                bfs(crate::params::Params::others(), tier.pick(4, 6), secs),
            ],
            rule: "start states = every hub instantiate over peg_recovery_fee x er_threshold in {in-range, exactly 1, 1+1e-18, 2} and every dispatcher instantiate over keeper rates likewise; BFS over every UpdateParams / UpdateConfig message with every presence combination of its optional fields and in-range / boundary / out-of-range values, UpdateSwapDenom add/remove/duplicate, UpdateSwapContract, UpdateOracleContract, reward and registry UpdateConfig, by the owner and by a non-owner (hub parameter space explored to its fixpoint; dispatcher depth-bounded because its swap_denoms list can grow without bound); non-trivial = an accepted or rejected update compared field by field".into(),
            assumptions: vec!["rejected transactions are rolled back by the chain (DESIGN.md 3.1); the check therefore decides which updates are rejected and what accepted ones store".into()],
            essential: vec!["c20_accepted_update", "c20_rejected_update", "c20_states_checked", "c20_dispatcher_rate_checked"],
        },
        _ => return None,
    })
}

