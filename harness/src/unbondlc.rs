//! The unbond life-cycle scenario: unbond / withdraw / time / slashing of unbonding stake / rogue
//! transfers. Serves C01 (funding, exact payout, exactly-once, order independence), C06 (release
//! pro-rata), C07 (claim ledger) and C08 (time-lock, forward-only batches).
use crate::actions::*;
use crate::chain::*;
use crate::deploy::*;
use crate::explore::*;
use crate::hubcore::{action_class, fx_sum_undelegate, sym_amounts, time_actions};
use crate::obs::*;
use serde_json::json;
use sha2::{Digest, Sha256};
use std::collections::{BTreeMap, BTreeSet};

#[derive(Clone, Default)]
pub struct Arm {
    pub c01: bool,
    pub c06: bool,
    pub c07: bool,
    pub c08: bool,
    pub c09: bool,
}

#[derive(Clone)]
pub struct UnbondLc {
    pub label: String,
    pub arm: Arm,
    pub users: Vec<&'static str>,
    pub tokens: Vec<&'static str>,
    pub amounts_abs: Vec<u128>,
    pub sym: bool,
    pub epoch: u64,
    pub unbonding: u64,
    pub peg_fee: &'static str,
    pub budget: u8,
    pub seeds: Vec<&'static str>,
    pub full_time: bool,
    pub with_bond: bool,
    pub with_convert: bool,
    pub with_send_from: bool,
    pub with_rogue: bool,
    pub with_slash_bonded: bool,
    pub with_foreign_receive: bool,
    pub slash_vals: Vec<&'static str>,
    /// multiplies every amount of the seeds and of `amounts_abs` (1e15 puts the pools at 1e18)
    pub scale: u128,
    pub unbonding_slash: Vec<(u128, u128)>,
}

impl UnbondLc {
    pub fn base(label: &str) -> UnbondLc {
        UnbondLc {
            label: label.into(),
            arm: Arm::default(),
            users: vec![ALICE, BOB],
            tokens: vec![BSEI, STSEI],
            amounts_abs: vec![],
            sym: true,
            epoch: 10,
            unbonding: 30,
            peg_fee: "0",
            budget: 1,
            seeds: vec!["funded", "slashed", "inflight"],
            full_time: false,
            with_bond: false,
            with_convert: false,
            with_send_from: false,
            with_rogue: true,
            with_slash_bonded: false,
            with_foreign_receive: false,
            slash_vals: vec!["val1"],
            scale: 1,
            unbonding_slash: vec![(1, 2)],
        }
    }
}

#[derive(Clone, Debug, Default)]
pub struct G {
    pub budget: u8,
    /// completion instants of unbonding entries that were slashed (release groups containing them are not "clean")
    pub dirty_times: BTreeSet<u64>,
    /// unsolicited coins reached the hub since the last release
    pub rogue: bool,
    /// C07 reference ledger: (user, batch) -> (bsei, stsei) claims
    pub ledger: BTreeMap<(String, u64), (u128, u128)>,
    /// claims deleted by withdrawals, per batch
    pub paid: BTreeMap<u64, (u128, u128)>,
    /// release groups still being paid out: (batches, coins that arrived for them, coins paid so far, claims, clean)
    pub groups: Vec<(Vec<u64>, u128, u128, u64, bool)>,
}


impl Scenario for UnbondLc {
    type G = G;
    type O = HubObs;
    fn name(&self) -> String {
        format!("unbond/{}", self.label)
    }
    fn seeds(&self) -> Vec<(String, Chain, G)> {
        let mut out = vec![];
        for s in &self.seeds {
            let cfg = Cfg { epoch: self.epoch, unbonding: self.unbonding, peg_fee: self.peg_fee, ..Cfg::default() };
            let k = self.scale;
            let mut prefix: Vec<Action> = vec![bond(ALICE, 1000 * k), bond_st(BOB, 777 * k), bond_st(ALICE, 300 * k), bond(BOB, 200 * k)];
            match *s {
                "funded" => {}
                "slashed" => {
                    prefix.push(slash_bonded("val1", 1, 10));
                    prefix.push(slash_bonded("val2", 1, 10));
                    prefix.push(check_slashing(CAROL));
                }
                "inflight" => {
                    prefix.push(unbond(ALICE, BSEI, 100 * k));
                    prefix.push(advance(self.epoch + 1));
                    prefix.push(unbond(BOB, STSEI, 50 * k));
                    prefix.push(advance(1));
                }
                "two_inflight" => {
                    prefix.push(unbond(ALICE, BSEI, 100 * k));
                    prefix.push(advance(self.epoch + 1));
                    prefix.push(unbond(BOB, STSEI, 50 * k));
                    prefix.push(advance(self.epoch + 1));
                    prefix.push(unbond(ALICE, STSEI, 37 * k + 1));
                    prefix.push(unbond(BOB, BSEI, 11 * k + 3));
                    prefix.push(advance(self.epoch + 1));
                    prefix.push(unbond(BOB, BSEI, 1));
                    prefix.push(advance(1));
                }
                "zero_batch" => {
                    // rates 0.9; batch 1 shared by alice and bob, batch 2 holds a single one-unit request (worth 0 coins)
                    prefix.push(slash_bonded("val1", 1, 10));
                    prefix.push(slash_bonded("val2", 1, 10));
                    prefix.push(check_slashing(CAROL));
                    prefix.push(unbond(ALICE, BSEI, 30 * k));
                    prefix.push(unbond(BOB, BSEI, 30 * k));
                    prefix.push(advance(self.epoch + 1));
                    prefix.push(unbond(ALICE, BSEI, 5 * k));
                    prefix.push(advance(self.epoch + 1));
                    prefix.push(unbond(BOB, BSEI, 1));
                    prefix.push(advance(1));
                }
                "ten_batches" => {
                    // a long history: ten closed batches, claims of one user on both sides of the 9/10 boundary,
                    // the older ones matured and nobody has withdrawn yet
                    for i in 0..10u128 {
                        prefix.push(advance(self.epoch + 1));
                        prefix.push(unbond(ALICE, if i % 2 == 0 { STSEI } else { BSEI }, (5 + i) * k));
                        if i == 3 || i == 8 {
                            prefix.push(unbond(BOB, STSEI, 7 * k));
                        }
                    }
                    prefix.push(advance(1));
                }
                "three_users" => {
                    prefix.push(bond(CAROL, 50));
                    prefix.push(bond_st(CAROL, 60));
                }
                "allowances" => {
                    prefix.push(increase_allowance(ALICE, DAVE, BSEI, 500, None));
                    prefix.push(increase_allowance(BOB, DAVE, STSEI, 400, None));
                }
                "dust" => {
                    // stSei-only pool at rate 0.9: one-unit requests are worth 0 coins
                    prefix = vec![bond_st(ALICE, 1000), bond_st(BOB, 1000), transfer(ALICE, CAROL, STSEI, 1), slash_bonded("val1", 1, 10), slash_bonded("val2", 1, 10), check_slashing(CAROL)];
                }
                "dustgroup" => {
                    // two zero-valued batches already closed, a third epoch running
                    prefix = vec![
                        bond_st(ALICE, 1000),
                        bond_st(BOB, 1000),
                        transfer(ALICE, CAROL, STSEI, 1),
                        slash_bonded("val1", 1, 10),
                        slash_bonded("val2", 1, 10),
                        check_slashing(CAROL),
                        advance(self.epoch + 1),
                        unbond(ALICE, STSEI, 1),
                        advance(self.epoch + 1),
                        unbond(CAROL, STSEI, 1),
                        advance(self.epoch + 1),
                    ];
                }
                "dustgroup_b" => {
                    prefix = vec![
                        bond(ALICE, 1000),
                        bond(BOB, 1000),
                        transfer(ALICE, CAROL, BSEI, 1),
                        slash_bonded("val1", 1, 10),
                        slash_bonded("val2", 1, 10),
                        check_slashing(CAROL),
                        advance(self.epoch + 1),
                        unbond(ALICE, BSEI, 1),
                        advance(self.epoch + 1),
                        unbond(CAROL, BSEI, 1),
                        advance(self.epoch + 1),
                    ];
                }
                other => panic!("krpmc: unknown seed {}", other),
            }
            let mut c = deploy(&cfg);
            // seeds are built through real transactions; the ledger ghost follows them through step()
            let mut g = G { budget: 0, ..G::default() };
            for a in &prefix {
                let o = self.observe(&c);
                let mut post = c.clone();
                let out = apply(&mut post, a);
                if !out.ok() {
                    panic!("krpmc: seed {} step {} failed: {}", s, a.label, out.err());
                }
                let po = self.observe(&post);
                let mut cx = Cx::default();
                g = self.step(&c, &o, &g, a, &out, &post, &po, &mut cx);
                c = post;
            }
            g.budget = self.budget;
            g.dirty_times.clear();
            g.rogue = false;
            out.push((s.to_string(), c, g));
        }
        out
    }
    fn feed_ghost(&self, g: &G, h: &mut Sha256) {
        h.update([g.budget, g.rogue as u8]);
        for t in &g.dirty_times {
            h.update(t.to_le_bytes());
        }
        h.update(b"|L");
        for ((u, b), (x, y)) in &g.ledger {
            h.update(u.as_bytes());
            h.update(b.to_le_bytes());
            h.update(x.to_le_bytes());
            h.update(y.to_le_bytes());
        }
        h.update(b"|P");
        for (b, (x, y)) in &g.paid {
            h.update(b.to_le_bytes());
            h.update(x.to_le_bytes());
            h.update(y.to_le_bytes());
        }
        h.update(b"|G");
        for (bs, arr, paid, n, clean) in &g.groups {
            for b in bs {
                h.update(b.to_le_bytes());
            }
            h.update(arr.to_le_bytes());
            h.update(paid.to_le_bytes());
            h.update(n.to_le_bytes());
            h.update([*clean as u8]);
        }
    }
    fn observe(&self, c: &Chain) -> HubObs {
        HubObs::new(c)
    }
    fn actions(&self, c: &Chain, o: &HubObs, g: &G) -> Vec<Action> {
        let mut v = vec![];
        for u in &self.users {
            for tok in &self.tokens {
                let bal = o.tok_bal(tok, u);
                let mut am: Vec<u128> = self.amounts_abs.iter().map(|a| if *a > 1 { a * self.scale + a % 7 } else { *a }).collect();
                if self.sym {
                    am.extend(sym_amounts(bal));
                }
                am.sort();
                am.dedup();
                for a in am {
                    v.push(unbond(u, tok, a));
                }
                if self.with_convert && bal > 1 {
                    v.push(convert(u, tok, bal / 2));
                }
            }
            v.push(withdraw(u));
            if self.with_bond {
                v.push(bond(u, 100));
                v.push(bond_st(u, 107));
            }
        }
        if self.with_send_from {
            for (owner, tok) in [(ALICE, BSEI), (BOB, STSEI)] {
                v.push(unbond_from(DAVE, owner, tok, 1));
                v.push(unbond_from(DAVE, owner, tok, 40));
            }
            v.push(withdraw(DAVE));
        }
        if self.with_foreign_receive {
            // a Receive hook delivered by something that is not a registered token must be refused
            for s in [EVE, DISP] {
                v.push(exec(format!("forged_receive({})", s), s, HUB, json!({"receive":{"sender":s,"amount":"5","msg":hook("unbond")}}), &[]));
            }
        }
        v.extend(time_actions(c, o, self.full_time));
        if g.budget > 0 {
            if !c.unbonding.is_empty() {
                for val in &self.slash_vals {
                    for (n, d) in &self.unbonding_slash {
                        v.push(slash_unbonding(val, *n, *d));
                    }
                }
            }
            if self.with_slash_bonded {
                v.push(slash_bonded("val1", 1, 10));
            }
            if self.with_rogue {
                v.push(rogue(CAROL, HUB, USEI, 7));
            }
        }
        v
    }

    fn step(&self, pre: &Chain, po: &HubObs, g: &G, a: &Action, out: &Outcome, post: &Chain, qo: &HubObs, cx: &mut Cx) -> G {
        let mut g2 = g.clone();
        g2.budget = g.budget.saturating_sub(a.dev);
        // ---- ghost bookkeeping -------------------------------------------------------------
        match &a.op {
            Op::SlashUnbonding { val, .. } => {
                for (u0, u1) in pre.unbonding.iter().zip(post.unbonding.iter()) {
                    if &u0.validator == val && u0.balance != u1.balance {
                        g2.dirty_times.insert(u0.completion);
                    }
                }
            }
            Op::BankSend { to, .. } if to == HUB && out.ok() => g2.rogue = true,
            _ => {}
        }
        let released_now: Vec<u64> = ((po.state.last_processed_batch + 1)..=qo.state.last_processed_batch).collect();
        let hook_info = a.hub_hook();
        let is_unbond = out.ok() && hook_info.as_ref().map(|h| h.0 == "unbond").unwrap_or(false);
        if is_unbond {
            let (_, amt, _) = hook_info.clone().unwrap();
            let (sender, tok, _) = a.exec_parts().unwrap();
            // what was credited is read from the sender's public claim list (before/after), not from response attributes
            let col = |o: &HubObs| -> u128 {
                o.requests.get(sender).and_then(|r| r.iter().find(|x| x.0 == po.batch.id)).map(|x| if tok == BSEI { x.1 } else { x.2 }).unwrap_or(0)
            };
            let col_c = |c: &Chain| -> u128 { hub_requests(c, sender).iter().find(|x| x.0 == po.batch.id).map(|x| if tok == BSEI { x.1 } else { x.2 }).unwrap_or(0) };
            let credited: u128 = if USERS.contains(&sender) { col(qo).saturating_sub(col(po)) } else { col_c(post).saturating_sub(col_c(pre)) };
            let e = g2.ledger.entry((sender.to_string(), po.batch.id)).or_insert((0, 0));
            if tok == BSEI {
                e.0 += credited.min(amt);
            } else {
                e.1 += credited.min(amt);
            }
            if self.arm.c07 {
                c07_unbond_step(po, a, sender, tok, amt, credited, qo, cx);
            }
        }
        let is_withdraw_ok = out.ok() && a.is(HUB, "withdraw_unbonded");
        if is_withdraw_ok && !released_now.is_empty() {
            // a new release group: remember what arrived for it
            let arrived = po.hub_usei.saturating_sub(po.state.prev_hub_balance.u128());
            let dirty = g.rogue || released_now.iter().any(|b| qo.hist(*b).map(|h| g.dirty_times.contains(&(h.time + po.params.unbonding_period))).unwrap_or(false));
            let claims: u64 = po.requests.values().map(|r| r.iter().filter(|x| released_now.contains(&x.0)).count() as u64).sum();
            g2.groups.push((released_now.clone(), arrived, 0, claims, !dirty));
        }
        if is_withdraw_ok {
            // attribute the payout to the groups of the batches it settled
            let u0 = a.sender().to_string();
            for (b, x, y) in po.requests.get(&u0).cloned().unwrap_or_default() {
                if let Some(h) = qo.hist(b) {
                    if h.released {
                        let v = mul_dec(y, h.stsei_withdraw_rate) + mul_dec(x, h.bsei_withdraw_rate);
                        for grp in g2.groups.iter_mut() {
                            if grp.0.contains(&b) {
                                grp.2 += v;
                            }
                        }
                    }
                }
            }
            // a group none of whose batches is claimed by anybody any more is settled: compare paid with arrived
            let mut keep = vec![];
            for grp in g2.groups.drain(..) {
                let open = qo.requests.values().any(|r| r.iter().any(|x| grp.0.contains(&x.0)));
                if open {
                    keep.push(grp);
                } else if self.arm.c01 {
                    cx.trigger("c01_group_settled");
                    let slack = (grp.0.len() as u128) * 6 + 2 * grp.3 as u128;
                    if grp.2 > grp.1 {
                        cx.viol("C01.group_paid_le_arrived", "claimants of a release group were paid more than arrived for it", format!("{}: batches {:?} arrived {} paid {}", a.label, grp.0, grp.1, grp.2));
                    }
                    if grp.4 && grp.2 + slack < grp.1 {
                        cx.viol("C01.group_paid_dust", "a fully withdrawn release group (no slashing, no rogue coins) paid out less than arrived beyond rounding dust", format!("{}: batches {:?} arrived {} paid {} over {} claims", a.label, grp.0, grp.1, grp.2, grp.3));
                    }
                }
            }
            g2.groups = keep;
        }
        if is_withdraw_ok {
            let u = a.sender().to_string();
            let keys: Vec<(String, u64)> = g2.ledger.keys().filter(|(x, b)| *x == u && qo.hist(*b).map(|h| h.released).unwrap_or(false)).cloned().collect();
            for k in keys {
                let (b, st) = g2.ledger.remove(&k).unwrap();
                let p = g2.paid.entry(k.1).or_insert((0, 0));
                p.0 += b;
                p.1 += st;
            }
        }
        // ---- C01 ----------------------------------------------------------------------------
        if self.arm.c01 {
            c01_step(po, g, a, out, qo, &released_now, cx);
        }
        if self.arm.c06 && !released_now.is_empty() {
            let dirty = g.rogue || released_now.iter().any(|b| qo.hist(*b).map(|h| g.dirty_times.contains(&(h.time + po.params.unbonding_period))).unwrap_or(false));
            c06_release(po, a, qo, &released_now, dirty, cx);
        }
        if self.arm.c08 {
            c08_step(pre, po, a, out, qo, cx);
        }
        if self.arm.c07 && self.with_foreign_receive && a.label.starts_with("forged_receive") {
            cx.trigger("c07_forged_receive");
            if out.ok() {
                cx.viol("C07.foreign_receive", "Receive hook accepted from an address that is not a registered token", a.label.clone());
            }
        }
        if !released_now.is_empty() {
            for b in &released_now {
                if let Some(h) = qo.hist(*b) {
                    g2.dirty_times.remove(&(h.time + qo.params.unbonding_period));
                }
            }
            g2.rogue = false;
        }
        g2
    }

    fn state(&self, c: &Chain, o: &HubObs, g: &G, cx: &mut Cx) {
        if self.arm.c01 {
            c01_state(o, cx);
            c01_probe(self, c, o, cx);
        }
        if self.arm.c07 {
            c07_state(c, o, g, cx);
        }
        if self.arm.c09 {
            c09_matured_probe(c, o, cx);
        }
    }
}

// =============================================================================================
// C01

fn released_claims_total(o: &HubObs) -> u128 {
    let mut tot = 0u128;
    for reqs in o.requests.values() {
        for (b, x, y) in reqs {
            if let Some(h) = o.hist(*b) {
                if h.released {
                    tot += mul_dec(*y, h.stsei_withdraw_rate) + mul_dec(*x, h.bsei_withdraw_rate);
                }
            }
        }
    }
    tot
}

fn c01_state(o: &HubObs, cx: &mut Cx) {
    let tot = released_claims_total(o);
    if tot > 0 {
        cx.trigger("c01_released_claims_outstanding");
        cx.validated();
    }
    if o.hub_usei < tot {
        cx.viol("C01.funded", "hub liquid balance below the sum of released claims", format!("balance {} released claims {} (history {:?})", o.hub_usei, tot, o.history.iter().map(|h| (h.batch_id, h.stsei_amount.u128(), h.stsei_withdraw_rate.to_string(), h.bsei_amount.u128(), h.bsei_withdraw_rate.to_string(), h.released)).collect::<Vec<_>>()));
    }
}

fn c01_step(po: &HubObs, g: &G, a: &Action, out: &Outcome, qo: &HubObs, released_now: &[u64], cx: &mut Cx) {
    if !out.ok() {
        return;
    }
    if !released_now.is_empty() {
        // a release: the newly released batches are valued against the coins that arrived
        let arrived = po.hub_usei as i128 - po.state.prev_hub_balance.u128() as i128;
        let mut total = 0u128;
        let mut claims = 0u128;
        let mut zero_valued = 0;
        let mut both = false;
        for b in released_now {
            if let Some(h) = qo.hist(*b) {
                let v = mul_dec(h.bsei_amount.u128(), h.bsei_withdraw_rate) + mul_dec(h.stsei_amount.u128(), h.stsei_withdraw_rate);
                total += v;
                if mul_dec(h.bsei_amount.u128(), h.bsei_applied_exchange_rate) + mul_dec(h.stsei_amount.u128(), h.stsei_applied_exchange_rate) == 0 {
                    zero_valued += 1;
                }
                if !h.bsei_amount.is_zero() && !h.stsei_amount.is_zero() {
                    both = true;
                }
            }
            for reqs in po.requests.values() {
                claims += reqs.iter().filter(|r| r.0 == *b).count() as u128;
            }
        }
        cx.trigger("c01_release_checked");
        cx.validated();
        if released_now.len() >= 2 {
            cx.count("c01_release_multi_batch");
        }
        if zero_valued > 0 {
            cx.count("c01_release_with_zero_valued_batch");
        }
        if both {
            cx.count("c01_release_both_tokens");
        }
        let dirty = g.rogue || released_now.iter().any(|b| qo.hist(*b).map(|h| g.dirty_times.contains(&(h.time + po.params.unbonding_period))).unwrap_or(false));
        if dirty {
            cx.count("c01_release_after_slash_or_rogue");
        }
        if (total as i128) > arrived {
            cx.viol("C01.release_le_arrived", "released batches are valued above the coins that arrived", format!("{}: batches {:?} valued {} arrived {}", a.label, released_now, total, arrived));
        }
        if !dirty {
            let slack = (released_now.len() as i128) * 6 + claims as i128;
            if (total as i128) < arrived - slack {
                cx.viol("C01.release_dust", "release without slashing/rogue coins falls short of the arrived coins by more than rounding dust", format!("{}: batches {:?} valued {} arrived {} slack {}", a.label, released_now, total, arrived, slack));
            }
        }
    }
    if a.is(HUB, "withdraw_unbonded") {
        let u = a.sender().to_string();
        let pre_reqs = po.requests.get(&u).cloned().unwrap_or_default();
        let post_reqs = qo.requests.get(&u).cloned().unwrap_or_default();
        let mut expected = 0u128;
        let mut keep = vec![];
        for (b, x, y) in &pre_reqs {
            match qo.hist(*b) {
                Some(h) if h.released => expected += mul_dec(*y, h.stsei_withdraw_rate) + mul_dec(*x, h.bsei_withdraw_rate),
                _ => keep.push((*b, *x, *y)),
            }
        }
        let mut sent = 0u128;
        let mut sends = 0;
        for e in out.fx() {
            if let Fx::BankSend { from, to, coins } = e {
                if from == HUB {
                    sends += 1;
                    if *to != u {
                        cx.viol("C01.payout", "withdraw paid somebody else", format!("{}: paid {}", a.label, to));
                    }
                    sent += coins.iter().filter(|(d, _)| d == USEI).map(|(_, a)| *a).sum::<u128>();
                }
            }
        }
        cx.trigger("c01_withdraw_paid");
        cx.validated();
        if sends != 1 || sent != expected || expected == 0 {
            cx.viol("C01.payout", "withdraw did not pay exactly the recorded share", format!("{}: sent {} in {} sends, expected {}", a.label, sent, sends, expected));
        }
        if post_reqs != keep {
            cx.viol("C01.claims_removed", "paid claims not removed (or unpaid ones removed)", format!("{}: requests after {:?} expected {:?}", a.label, post_reqs, keep));
        }
        for (x, r) in &po.requests {
            if *x != u && qo.requests.get(x) != Some(r) {
                cx.viol("C01.other_claims", "withdraw changed another user's claims", format!("{}: {} {:?} -> {:?}", a.label, x, r, qo.requests.get(x)));
            }
        }
        if po.hub_usei - qo.hub_usei != sent {
            cx.viol("C01.payout", "hub balance fell by a different amount than was paid", format!("{}: {} -> {} sent {}", a.label, po.hub_usei, qo.hub_usei, sent));
        }
    }
}

/// users with matured claims (batch time + U <= now): (user, value of all matured claims — exact for released
/// batches, pro-rata estimate for matured-but-unreleased ones —, number of claims, exact value of the released part,
/// number of unreleased claims)
pub fn matured_users_ex(c: &Chain, o: &HubObs) -> Vec<(String, u128, usize, u128, usize)> {
    let mut out = vec![];
    let u_period = o.params.unbonding_period;
    let arrived = o.hub_usei.saturating_sub(o.state.prev_hub_balance.u128());
    let mut group_total = 0u128;
    for h in &o.history {
        if !h.released && h.time + u_period <= c.time {
            group_total += mul_dec(h.bsei_amount.u128(), h.bsei_applied_exchange_rate) + mul_dec(h.stsei_amount.u128(), h.stsei_applied_exchange_rate);
        }
    }
    for (u, reqs) in &o.requests {
        let mut val = 0u128;
        let mut rel = 0u128;
        let mut n = 0usize;
        let mut n_unrel = 0usize;
        for (b, x, y) in reqs {
            if let Some(h) = o.hist(*b) {
                if h.released {
                    let v = mul_dec(*y, h.stsei_withdraw_rate) + mul_dec(*x, h.bsei_withdraw_rate);
                    val += v;
                    rel += v;
                    n += 1;
                } else if h.time + u_period <= c.time {
                    let nominal = mul_dec(*y, h.stsei_applied_exchange_rate) + mul_dec(*x, h.bsei_applied_exchange_rate);
                    if group_total > 0 {
                        val += muldiv(nominal, arrived.min(group_total), group_total);
                    }
                    n += 1;
                    n_unrel += 1;
                }
            }
        }
        if n > 0 {
            out.push((u.clone(), val, n, rel, n_unrel));
        }
    }
    out
}
fn matured_users(c: &Chain, o: &HubObs) -> Vec<(String, u128, usize)> {
    matured_users_ex(c, o).into_iter().map(|m| (m.0, m.1, m.2)).collect()
}

fn do_withdraw(c: &mut Chain, u: &str) -> (Result<u128, String>, u128) {
    let before = c.bal(u, USEI);
    let a = withdraw(u);
    let out = apply(c, &a);
    let after = c.bal(u, USEI);
    match out.res {
        Ok(_) => (Ok(after - before), after - before),
        Err(e) => (Err(e), 0),
    }
}

fn permutations(n: usize) -> Vec<Vec<usize>> {
    fn rec(cur: &mut Vec<usize>, used: &mut Vec<bool>, n: usize, out: &mut Vec<Vec<usize>>) {
        if cur.len() == n {
            out.push(cur.clone());
            return;
        }
        for i in 0..n {
            if !used[i] {
                used[i] = true;
                cur.push(i);
                rec(cur, used, n, out);
                cur.pop();
                used[i] = false;
            }
        }
    }
    let mut out = vec![];
    rec(&mut vec![], &mut vec![false; n], n, &mut out);
    out
}

fn c01_probe(_sc: &UnbondLc, c: &Chain, o: &HubObs, cx: &mut Cx) {
    let mu = matured_users(c, o);
    if mu.is_empty() {
        return;
    }
    let released_value: std::collections::BTreeMap<String, u128> = matured_users_ex(c, o).into_iter().map(|m| (m.0, m.3)).collect();
    cx.trigger("c01_probe_states_with_matured_claims");
    // every order of all users with matured claims
    let perms = permutations(mu.len());
    let mut reference: Option<Vec<Option<u128>>> = None;
    for p in &perms {
        let mut cc = c.clone();
        let mut pays: Vec<Option<u128>> = vec![None; mu.len()];
        for &i in p {
            let (u, val, n) = &mu[i];
            let (r, paid) = do_withdraw(&mut cc, u);
            cx.probe(2);
            match r {
                Ok(_) => {
                    pays[i] = Some(paid);
                    // exactly once: an immediate second withdraw must fail and move nothing
                    let mut c2 = cc.clone();
                    let (r2, paid2) = do_withdraw(&mut c2, u);
                    cx.count("c01_probe_double_withdraw");
                    if r2.is_ok() || paid2 != 0 {
                        cx.viol("C01.paid_twice", "second withdraw right after a successful one paid again", format!("user {} first {} second {}", u, paid, paid2));
                    }
                }
                Err(e) => {
                    // a refusal is acceptable only for claims worth less than one unit (conservative bound); the
                    // verdict depends on the value of the claims, never on the wording of the error
                    if *val >= 1 + 3 * (*n as u128) || (p[0] == i && released_value.get(u).copied().unwrap_or(0) >= 1) {
                        if e.contains("No withdrawable") {
                            cx.viol("C01.withdraw_refused", "matured claims worth at least one unit were refused", format!("user {} pro-rata value {} over {} claims: {}", u, val, n, e));
                        } else {
                            cx.viol("C01.withdraw_fails", format!("withdraw of matured claims fails: {}", classify_err(&e)), format!("user {} value {} (order {:?} of {:?}): {}", u, val, p, mu.iter().map(|m| m.0.clone()).collect::<Vec<_>>(), e));
                        }
                    } else {
                        cx.count("c01_probe_sub_unit_refusals");
                    }
                }
            }
        }
        cx.count("c01_probe_orders");
        match &reference {
            None => reference = Some(pays),
            Some(r) => {
                if *r != pays {
                    cx.viol("C01.order_dependent", "payouts depend on the order of withdrawals", format!("users {:?}: order {:?} pays {:?}, first order paid {:?}", mu.iter().map(|m| m.0.clone()).collect::<Vec<_>>(), p, pays, r));
                }
            }
        }
    }
    if mu.len() >= 2 {
        cx.count("c01_probe_multi_user_orders");
    }
}

/// C09: once the unbonding period has passed, a holder's WithdrawUnbonded succeeds whenever its claim is
/// worth at least one unit — also for what is left after a first, partial payout.
pub fn c09_matured_probe(c: &Chain, o: &HubObs, cx: &mut Cx) {
    let mu = matured_users(c, o);
    if mu.is_empty() {
        return;
    }
    cx.trigger("c09_matured_claim_probes");
    let clean = c.unbonding.iter().all(|x| x.balance == x.initial);
    for (u, _, _) in &mu {
        let mut cc = c.clone();
        for round in 0..3 {
            let oo = HubObs::new(&cc);
            let Some((_, val, n, released_value, _)) = matured_users_ex(&cc, &oo).into_iter().find(|m| m.0 == *u) else { break };
            let (r, _) = do_withdraw(&mut cc, u);
            cx.probe(1);
            match r {
                Ok(_) => continue,
                Err(e) => {
                    // a claim in an already released batch has an exact value: one unit of it is enough
                    if released_value >= 1 || (val >= 1 + 3 * n as u128 && (clean || round > 0 || is_hard_failure(&e))) {
                        let what = if e.contains("No withdrawable") { "claims worth at least one unit refused after the unbonding period".to_string() } else { format!("withdraw after the unbonding period fails: {}", classify_err(&e)) };
                        cx.viol("C09.can_withdraw", what, format!("{} (attempt {}): matured value {} over {} claims: {}", u, round + 1, val, n, e));
                    }
                    break;
                }
            }
        }
    }
}

/// failures that can not be the hub's plain "nothing to pay out yet" answer, whatever that answer's wording is
pub fn is_hard_failure(e: &str) -> bool {
    e.contains("Overflow") || e.contains("overflow") || e.contains("insufficient funds") || e.contains("can not be lower than prev") || e.contains("PANIC")
}

pub fn classify_err(e: &str) -> String {
    if e.contains("Overflow") || e.contains("overflow") {
        "arithmetic overflow".into()
    } else if e.contains("insufficient funds") {
        "insufficient funds".into()
    } else if e.contains("can not be lower than prev") {
        "negative balance change".into()
    } else if e.contains("PANIC") {
        "panic".into()
    } else {
        e.chars().take(40).collect()
    }
}

// =============================================================================================
// C06 (release part): loss on unbonding stake is spread over the group in proportion

fn c06_release(po: &HubObs, a: &Action, qo: &HubObs, released_now: &[u64], dirty: bool, cx: &mut Cx) {
    let arrived = po.hub_usei.saturating_sub(po.state.prev_hub_balance.u128());
    {
        // a loss may only come from slashing: without slashing (and without rogue coins) exactly the nominal value arrives
        let nominal: u128 = released_now.iter().filter_map(|b| po.hist(*b)).map(|h| mul_dec(h.bsei_amount.u128(), h.bsei_withdraw_rate) + mul_dec(h.stsei_amount.u128(), h.stsei_withdraw_rate)).sum();
        if !dirty {
            cx.count("c06_release_without_slashing");
            if arrived != nominal {
                cx.viol("C06.loss_only_from_slashing", "a release group was valued against coins that differ from its nominal value although nothing was slashed (released before its coins arrived?)", format!("{}: batches {:?} nominal {} arrived {}", a.label, released_now, nominal, arrived));
            }
        }
    }
    if released_now.len() < 2 {
        cx.count("c06_release_single_batch");
        return;
    }
    let mut nominal: Vec<(u64, u128, u128)> = vec![];
    for b in released_now {
        if let Some(h) = po.hist(*b) {
            nominal.push((*b, mul_dec(h.bsei_amount.u128(), h.bsei_withdraw_rate), mul_dec(h.stsei_amount.u128(), h.stsei_withdraw_rate)));
        }
    }
    let total: u128 = nominal.iter().map(|n| n.1 + n.2).sum();
    if total == 0 {
        return;
    }
    cx.trigger("c06_release_group_checked");
    cx.validated();
    if arrived != total {
        cx.count("c06_release_group_with_loss_or_surplus");
    }
    // a loss is spread completely: after the release the group is not valued above the coins that arrived
    if arrived < total {
        let after: u128 = nominal.iter().filter_map(|n| qo.hist(n.0)).map(|h| mul_dec(h.bsei_amount.u128(), h.bsei_withdraw_rate) + mul_dec(h.stsei_amount.u128(), h.stsei_withdraw_rate)).sum();
        cx.count("c06_release_group_loss_fully_spread_checked");
        if after > arrived {
            cx.viol("C06.release_pro_rata", "the loss of a release group was not spread completely: its batches are valued above the coins that arrived", format!("{}: batches {:?} nominal {} arrived {} valued {} after the release", a.label, released_now, total, arrived, after));
        }
    }
    for (b, nb, ns) in nominal {
        let h = qo.hist(b).unwrap();
        let got_b = mul_dec(h.bsei_amount.u128(), h.bsei_withdraw_rate);
        let got_s = mul_dec(h.stsei_amount.u128(), h.stsei_withdraw_rate);
        let exp_b = muldiv(nb, arrived, total);
        let exp_s = muldiv(ns, arrived, total);
        if got_b.abs_diff(exp_b) > 6 || got_s.abs_diff(exp_s) > 6 {
            cx.viol("C06.release_pro_rata", "loss/surplus of a release group not spread in proportion to batch size", format!("{}: batch {} nominal {}/{} arrived {} of {} got {}/{} expected {}/{}", a.label, b, nb, ns, arrived, total, got_b, got_s, exp_b, exp_s));
        }
    }
}

// =============================================================================================
// C07

#[allow(clippy::too_many_arguments)]
fn c07_unbond_step(po: &HubObs, a: &Action, sender: &str, tok: &str, amt: u128, credited: u128, qo: &HubObs, cx: &mut Cx) {
    cx.trigger("c07_unbond_checked");
    cx.validated();
    if a.is(tok, "send_from") {
        cx.count("c07_unbond_via_send_from");
    }
    let peg = po.params.peg_recovery_fee;
    let fee_on = tok == BSEI && po.bsei_rate_derived() < po.params.er_threshold;
    let lo = if fee_on { amt - mul_dec(amt, peg) } else { amt };
    if credited > amt || credited < lo {
        cx.viol("C07.credit_bounds", "claim credited outside [amount - peg fee, amount]", format!("{}: amount {} credited {} allowed [{},{}]", a.label, amt, credited, lo, amt));
    }
    let (ps, qs) = if tok == BSEI { (po.bsei_supply, qo.bsei_supply) } else { (po.stsei_supply, qo.stsei_supply) };
    if ps < qs || ps - qs != amt {
        cx.viol("C07.burn_exact", "unbond did not burn exactly the tokens sent", format!("{}: supply {} -> {} amount {}", a.label, ps, qs, amt));
    }
    // the sender's own request list grew by exactly the credit in the batch that was current
    let pre = po.requests.get(sender).cloned().unwrap_or_default();
    let post = qo.requests.get(sender).cloned().unwrap_or_default();
    let id = po.batch.id;
    let before = pre.iter().find(|r| r.0 == id).map(|r| (r.1, r.2)).unwrap_or((0, 0));
    let after = post.iter().find(|r| r.0 == id).map(|r| (r.1, r.2)).unwrap_or((0, 0));
    let exp = if tok == BSEI { (before.0 + credited, before.1) } else { (before.0, before.1 + credited) };
    if after != exp {
        cx.viol("C07.credit_sender", "sender's claim in the current batch did not grow by the credited amount", format!("{}: batch {} {:?} -> {:?} expected {:?}", a.label, id, before, after, exp));
    }
}

fn c07_state(c: &Chain, o: &HubObs, g: &G, cx: &mut Cx) {
    cx.count("c07_ledger_states");
    // UnbondRequests of every known address equals the reference ledger
    for (u, reqs) in &o.requests {
        let exp: Vec<(u64, u128, u128)> = g.ledger.iter().filter(|((x, _), v)| x == u && (v.0 > 0 || v.1 > 0)).map(|((_, b), v)| (*b, v.0, v.1)).collect();
        // the query lists a user's claims in storage-key order (decimal strings: 1, 10, 2, ...); order is not part of the property
        let mut got: Vec<(u64, u128, u128)> = reqs.iter().filter(|r| r.1 > 0 || r.2 > 0).cloned().collect();
        got.sort();
        if exp != got {
            cx.viol("C07.ledger", "UnbondRequests differs from the reference claim ledger", format!("{}: query {:?} ledger {:?}", u, got, exp));
        }
    }
    for u in [HUB, BSEI, STSEI, EVE, OWNER] {
        if !hub_requests(c, u).is_empty() {
            cx.viol("C07.ledger", "a claim appeared for an address that never unbonded", u.to_string());
        }
    }
    // batch totals
    let cur = o.batch.id;
    let sum = |b: u64| -> (u128, u128) { g.ledger.iter().filter(|((_, x), _)| *x == b).fold((0, 0), |acc, (_, v)| (acc.0 + v.0, acc.1 + v.1)) };
    let s = sum(cur);
    if s != (o.batch.requested_bsei_with_fee.u128(), o.batch.requested_stsei.u128()) {
        cx.viol("C07.batch_total", "current batch total differs from the sum of recorded claims", format!("batch {} totals {}/{} ledger {:?}", cur, o.batch.requested_bsei_with_fee, o.batch.requested_stsei, s));
    }
    for h in &o.history {
        let s = sum(h.batch_id);
        let p = g.paid.get(&h.batch_id).copied().unwrap_or((0, 0));
        if (s.0 + p.0, s.1 + p.1) != (h.bsei_amount.u128(), h.stsei_amount.u128()) {
            cx.viol("C07.batch_total", "history batch total differs from recorded claims plus paid claims", format!("batch {} history {}/{} ledger {:?} paid {:?}", h.batch_id, h.bsei_amount, h.stsei_amount, s, p));
        }
        cx.trigger("c07_history_batches_checked");
    }
    // every closed batch (ids 1..current) has its total stored in the history: no gaps, nothing beyond the open batch
    let ids: Vec<u64> = o.history.iter().map(|h| h.batch_id).collect();
    let exp_ids: Vec<u64> = (1..cur).collect();
    if ids != exp_ids {
        cx.viol("C07.history_gap", "the history does not hold exactly one entry per closed batch", format!("current batch {}: history ids {:?}", cur, ids));
    }
    // AllHistory paging is faithful
    let n = o.history.len() as u64;
    if n > 0 {
        for start in 0..=n {
            for limit in [1u32, 2, 100] {
                let r: basset::hub::AllHistoryResponse = c.query(HUB, &basset::hub::QueryMsg::AllHistory { start_from: Some(start), limit: Some(limit) }).expect("history");
                let exp: Vec<u64> = o.history.iter().map(|h| h.batch_id).filter(|b| *b > start).take(limit as usize).collect();
                let got: Vec<u64> = r.history.iter().map(|h| h.batch_id).collect();
                cx.count("c07_history_pages");
                if exp != got {
                    cx.viol("C07.history_paging", "AllHistory paging returns other entries", format!("start {} limit {}: got {:?} expected {:?}", start, limit, got, exp));
                }
            }
        }
    }
}

// =============================================================================================
// C08

fn c08_step(pre: &Chain, po: &HubObs, a: &Action, out: &Outcome, qo: &HubObs, cx: &mut Cx) {
    let now = pre.time;
    let e_period = po.params.epoch_period;
    let u_period = po.params.unbonding_period;
    // history is forward-only (also across failed transactions and environment events)
    for h in &po.history {
        match qo.hist(h.batch_id) {
            None => cx.viol("C08.history_forward", "a history entry disappeared", format!("{}: batch {}", a.label, h.batch_id)),
            Some(q) => {
                let fixed_same = q.time == h.time && q.bsei_amount == h.bsei_amount && q.stsei_amount == h.stsei_amount && q.bsei_applied_exchange_rate == h.bsei_applied_exchange_rate && q.stsei_applied_exchange_rate == h.stsei_applied_exchange_rate;
                if !fixed_same {
                    cx.viol("C08.history_forward", "time/amount/applied rate of a history entry changed", format!("{}: batch {} {:?} -> {:?}", a.label, h.batch_id, h, q));
                }
                if h.released {
                    cx.count("c08_released_entry_compared");
                    if q != h {
                        cx.viol("C08.released_frozen", "a released history entry changed", format!("{}: batch {} {:?} -> {:?}", a.label, h.batch_id, h, q));
                    }
                } else if !q.released && (q.bsei_withdraw_rate != h.bsei_withdraw_rate || q.stsei_withdraw_rate != h.stsei_withdraw_rate) {
                    cx.viol("C08.history_forward", "withdraw rate of an unreleased entry changed without release", format!("{}: batch {}", a.label, h.batch_id));
                }
                if !h.released && q.released {
                    cx.trigger("c08_release_transition");
                    if h.time + u_period > now {
                        cx.viol("C08.time_lock", "batch released before the unbonding period elapsed", format!("{}: batch {} time {} + {} > now {}", a.label, h.batch_id, h.time, u_period, now));
                    }
                }
            }
        }
    }
    if qo.state.last_processed_batch < po.state.last_processed_batch {
        cx.viol("C08.history_forward", "last processed batch moved backwards", a.label.clone());
    }
    if !out.ok() || out.is_env {
        return;
    }
    let fx = out.fx();
    let passed = now - po.last_undelegation();
    let closed = qo.batch.id != po.batch.id;
    let und = fx_sum_undelegate(fx);
    let is_unbond = a.hub_hook().map(|h| h.0 == "unbond").unwrap_or(false);
    if closed {
        cx.trigger("c08_batch_close_checked");
        cx.validated();
        if passed <= e_period {
            cx.viol("C08.epoch", "batch undelegated before more than one epoch period passed", format!("{}: passed {} epoch {}", a.label, passed, e_period));
        }
        if qo.batch.id != po.batch.id + 1 || !qo.batch.requested_bsei_with_fee.is_zero() || !qo.batch.requested_stsei.is_zero() {
            cx.viol("C08.numbering", "batch numbering not consecutive or new batch not empty", format!("{}: {:?} -> {:?}", a.label, po.batch, qo.batch));
        }
        let newh: Vec<u64> = qo.history.iter().map(|h| h.batch_id).filter(|b| po.hist(*b).is_none()).collect();
        if newh != vec![po.batch.id] {
            cx.viol("C08.numbering", "batch close did not create exactly the history entry of the closed batch", format!("{}: new entries {:?} closed batch {}", a.label, newh, po.batch.id));
        } else {
            let h = qo.hist(po.batch.id).unwrap();
            if h.time != now || h.released {
                cx.viol("C08.numbering", "new history entry has a wrong time or is already released", format!("{}: {:?}", a.label, h));
            }
            let exp = mul_dec(h.stsei_amount.u128(), h.stsei_applied_exchange_rate) + mul_dec(h.bsei_amount.u128(), h.bsei_applied_exchange_rate);
            if exp != und {
                cx.viol("C08.undelegated_value", "undelegated amount != requests valued at the recorded rates", format!("{}: undelegated {} expected {}", a.label, und, exp));
            }
            if h.bsei_withdraw_rate != h.bsei_applied_exchange_rate || h.stsei_withdraw_rate != h.stsei_applied_exchange_rate {
                cx.viol("C08.undelegated_value", "fresh history entry has withdraw rate != applied rate", format!("{}: {:?}", a.label, h));
            }
        }
    } else {
        if und > 0 {
            cx.viol("C08.numbering", "undelegation without closing a batch", format!("{}: {}", a.label, und));
        }
        if qo.history.len() != po.history.len() {
            cx.viol("C08.numbering", "history grew without a batch close", a.label.clone());
        }
        if is_unbond {
            cx.trigger("c08_unbond_within_epoch");
            if passed > e_period {
                cx.viol("C08.epoch", "unbond after the epoch period did not undelegate the batch", format!("{}: passed {} epoch {}", a.label, passed, e_period));
            }
        }
    }
    if a.is(HUB, "withdraw_unbonded") {
        // time-lock on the payout itself
        let u = a.sender().to_string();
        let pre_reqs = po.requests.get(&u).cloned().unwrap_or_default();
        let post_reqs = qo.requests.get(&u).cloned().unwrap_or_default();
        cx.trigger("c08_withdraw_timelock_checked");
        for r in pre_reqs {
            if !post_reqs.iter().any(|x| x.0 == r.0) {
                match po.hist(r.0) {
                    Some(h) if h.time + u_period <= now => {}
                    other => cx.viol("C08.time_lock", "claim paid before the unbonding period elapsed", format!("{}: batch {} history {:?} now {}", a.label, r.0, other.map(|h| h.time), now)),
                }
            }
        }
    }
    let _ = action_class;
}
