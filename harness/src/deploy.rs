//! The integrated deployment of DESIGN.md section 4 (E3) on the chain model.
use crate::chain::*;
use serde_json::json;

pub const OWNER: &str = "owner";
pub const UPDATER: &str = "updater";
pub const KEEPER: &str = "keeper";
pub const ALICE: &str = "alice";
pub const BOB: &str = "bob";
pub const CAROL: &str = "carol";
pub const DAVE: &str = "dave"; // spender
pub const EVE: &str = "eve"; // stranger
pub const NOMINEE: &str = "nominee";
pub const FAUCET: &str = "faucet";

#[derive(Clone, Debug)]
pub struct Cfg {
    pub epoch: u64,
    pub unbonding: u64,
    pub peg_fee: &'static str,
    pub threshold: &'static str,
    pub keeper_rate: &'static str,
    pub price: &'static str,
    pub chain_validators: Vec<&'static str>,
    pub registered: Vec<&'static str>,
    pub funded: Vec<(&'static str, u128)>,
    pub swap_denoms: Vec<&'static str>,
}

impl Default for Cfg {
    fn default() -> Self {
        Cfg {
            epoch: 10,
            unbonding: 30,
            peg_fee: "0",
            threshold: "1",
            keeper_rate: "0.05",
            price: "1",
            chain_validators: vec!["val1", "val2", "val3", "val4"],
            registered: vec!["val1", "val2"],
            funded: vec![(ALICE, 4_000_000_000_000_000_000), (BOB, 4_000_000_000_000_000_000), (CAROL, 4_000_000_000_000_000_000)],
            swap_denoms: vec![USEI, KUSD],
        }
    }
}

/// block time at which the chain starts and the contracts are instantiated
pub const GENESIS: u64 = 1000;

pub fn deploy(cfg: &Cfg) -> Chain {
    deploy_with_tokens(cfg, &[], &[]).expect("deployment")
}

/// The deployment with initial token balances (C18 quantifies over instantiate messages).
pub fn deploy_with_tokens(cfg: &Cfg, bsei_init: &[(&str, u128)], stsei_init: &[(&str, u128)]) -> Result<Chain, String> {
    let ib = |l: &[(&str, u128)]| -> Vec<serde_json::Value> { l.iter().map(|(a, x)| json!({"address": a, "amount": x.to_string()})).collect() };
    let mut c = Chain::new(GENESIS, cfg.unbonding, &cfg.chain_validators);
    c.price = crate::actions::dec(cfg.price).atomics().u128();
    c.hub_cfg = Some((cfg.epoch, cfg.unbonding, crate::actions::dec(cfg.peg_fee).atomics().u128(), crate::actions::dec(cfg.threshold).atomics().u128().min(1_000_000_000_000_000_000)));
    c.instantiate(
        Kind::Hub,
        HUB,
        OWNER,
        &json!({"epoch_period":cfg.epoch,"underlying_coin_denom":USEI,"unbonding_period":cfg.unbonding,
            "peg_recovery_fee":cfg.peg_fee,"er_threshold":cfg.threshold,"reward_denom":KUSD,"update_reward_index_addr":UPDATER}),
    )
    .unwrap();
    c.instantiate(Kind::Reward, REWARD, OWNER, &json!({"hub_contract":HUB,"reward_denom":KUSD,"swap_contract":SWAP,"swap_denoms":[]})).unwrap();
    c.instantiate(
        Kind::Dispatcher,
        DISP,
        OWNER,
        &json!({"hub_contract":HUB,"bsei_reward_contract":REWARD,"stsei_reward_denom":USEI,"bsei_reward_denom":KUSD,
            "krp_keeper_address":KEEPER,"krp_keeper_rate":cfg.keeper_rate,"swap_contract":SWAP,"swap_denoms":cfg.swap_denoms,"oracle_contract":ORACLE}),
    )
    .unwrap();
    let reg: Vec<_> = cfg.registered.iter().map(|v| json!({ "address": v })).collect();
    c.instantiate(Kind::Registry, REG, OWNER, &json!({"registry":reg,"hub_contract":HUB})).unwrap();
    c.instantiate(Kind::Bsei, BSEI, OWNER, &json!({"name":"bsei token","symbol":"BSEI","decimals":6,"initial_balances":ib(bsei_init),"hub_contract":HUB}))?;
    c.instantiate(
        Kind::Stsei,
        STSEI,
        OWNER,
        &json!({"name":"stsei token","symbol":"STSEI","decimals":6,"initial_balances":ib(stsei_init),"hub_contract":HUB,
        "marketing":{"project":"p","description":"d","marketing":OWNER,"logo":null}}),
    )?;
    c.instantiate(Kind::Swap, SWAP, OWNER, &json!({})).unwrap();
    c.instantiate(Kind::Oracle, ORACLE, OWNER, &json!({})).unwrap();
    c.instantiate(Kind::Sink, AIRDROP, OWNER, &json!({})).unwrap();
    c.tx(
        OWNER,
        HUB,
        &json!({"update_config":{"rewards_dispatcher_contract":DISP,"validators_registry_contract":REG,"bsei_token_contract":BSEI,
            "stsei_token_contract":STSEI,"airdrop_registry_contract":AIRDROP,"rewards_contract":REWARD,"update_reward_index_addr":null}}),
        &[],
    )
    .unwrap();
    for (u, a) in &cfg.funded {
        c.credit(u, USEI, *a);
    }
    Ok(c)
}

/// Run a setup prefix; every step must succeed (seed construction is not part of the explored space).
pub fn run_prefix(c: &mut Chain, prefix: &[crate::actions::Action]) {
    if let Err(e) = try_prefix(c, prefix) {
        panic!("krpmc: seed prefix {}", e);
    }
}

/// Like `run_prefix`, for seeds that do not exist under every configuration (e.g. a prefix with an index update
/// under a keeper rate of 0, where the known finding F1 makes the update fail): the caller skips the seed.
pub fn try_prefix(c: &mut Chain, prefix: &[crate::actions::Action]) -> Result<(), String> {
    for a in prefix {
        let o = crate::actions::apply(c, a);
        if let Err(e) = &o.res {
            return Err(format!("step {} failed: {}", a.label, e));
        }
    }
    Ok(())
}
