//! Actions (one top-level transaction or one environment event) and their execution.
use crate::chain::*;
use cosmwasm_std::{to_json_binary, Decimal};
use serde::{Deserialize, Serialize};
use serde_json::{json, Value};
use std::collections::BTreeMap;

#[derive(Clone, Copy, Debug, PartialEq, Eq, PartialOrd, Ord, Default)]
pub struct Amt(pub u128);
impl Serialize for Amt {
    fn serialize<S: serde::Serializer>(&self, s: S) -> Result<S::Ok, S::Error> {
        s.serialize_str(&self.0.to_string())
    }
}
impl<'de> Deserialize<'de> for Amt {
    fn deserialize<D: serde::Deserializer<'de>>(d: D) -> Result<Self, D::Error> {
        let s = String::deserialize(d)?;
        s.parse::<u128>().map(Amt).map_err(serde::de::Error::custom)
    }
}

#[derive(Clone, Debug, PartialEq, Serialize, Deserialize)]
#[serde(rename_all = "snake_case")]
pub enum Op {
    Exec { sender: String, contract: String, msg: Value, funds: Vec<(String, Amt)> },
    BankSend { from: String, to: String, denom: String, amt: Amt },
    Advance { dt: u64 },
    SlashBonded { val: String, num: Amt, den: Amt },
    SlashUnbonding { val: String, num: Amt, den: Amt },
    Accrue { val: String, denom: String, amt: Amt },
    SetSwapMode { mode: u8 },
    SetOracleMode { mode: u8 },
    SetPrice { atomics: Amt },
    /// reward delivery as the dispatcher performs it: `amt` of the reward coin reaches the reward
    /// contract, then the dispatcher address calls its UpdateGlobalIndex (one atomic step)
    Deliver { amt: Amt },
}

#[derive(Clone, Debug, PartialEq, Serialize, Deserialize)]
pub struct Action {
    pub label: String,
    pub op: Op,
    /// deviation cost (environment departures from the quiet run draw from the budget F)
    #[serde(default)]
    pub dev: u8,
}

pub struct Outcome {
    pub res: TxResult,
    /// expected change of the total coin supply per denom caused by this action
    pub supply_delta: BTreeMap<String, i128>,
    pub is_env: bool,
}

impl Outcome {
    pub fn ok(&self) -> bool {
        self.res.is_ok()
    }
    pub fn fx(&self) -> &[Fx] {
        match &self.res {
            Ok(f) => f,
            Err(_) => &[],
        }
    }
    pub fn err(&self) -> &str {
        match &self.res {
            Ok(_) => "",
            Err(e) => e,
        }
    }
}

fn mode(m: u8) -> Mode {
    match m {
        0 => Mode::Ok,
        1 => Mode::Fail,
        _ => Mode::Garbage,
    }
}

pub fn apply(c: &mut Chain, a: &Action) -> Outcome {
    let mut delta: BTreeMap<String, i128> = BTreeMap::new();
    match &a.op {
        Op::Exec { sender, contract, msg, funds } => {
            let f: Vec<(String, u128)> = funds.iter().map(|(d, a)| (d.clone(), a.0)).collect();
            let res = c.tx(sender, contract, msg, &f);
            if let Ok(fx) = &res {
                for e in fx {
                    if let Fx::SwapOut { denom, amt, .. } = e {
                        *delta.entry(denom.clone()).or_insert(0) += *amt as i128;
                    }
                }
            }
            Outcome { res, supply_delta: delta, is_env: false }
        }
        Op::BankSend { from, to, denom, amt } => {
            let res = c.tx_bank_send(from, to, &[(denom.clone(), amt.0)]);
            Outcome { res, supply_delta: delta, is_env: false }
        }
        Op::Advance { dt } => {
            c.advance(*dt);
            Outcome { res: Ok(vec![]), supply_delta: delta, is_env: true }
        }
        Op::SlashBonded { val, num, den } => {
            let b = c.slash_bonded(val, num.0, den.0);
            delta.insert(USEI.into(), -(b as i128));
            Outcome { res: Ok(vec![]), supply_delta: delta, is_env: true }
        }
        Op::SlashUnbonding { val, num, den } => {
            let b = c.slash_unbonding(val, num.0, den.0);
            delta.insert(USEI.into(), -(b as i128));
            Outcome { res: Ok(vec![]), supply_delta: delta, is_env: true }
        }
        Op::Accrue { val, denom, amt } => {
            if c.accrue(HUB, val, denom, amt.0) {
                delta.insert(denom.clone(), amt.0 as i128);
            }
            Outcome { res: Ok(vec![]), supply_delta: delta, is_env: true }
        }
        Op::SetSwapMode { mode: m } => {
            c.swap_mode = mode(*m);
            Outcome { res: Ok(vec![]), supply_delta: delta, is_env: true }
        }
        Op::SetOracleMode { mode: m } => {
            c.oracle_mode = mode(*m);
            Outcome { res: Ok(vec![]), supply_delta: delta, is_env: true }
        }
        Op::Deliver { amt } => {
            let snap = c.clone();
            c.credit(REWARD, KUSD, amt.0);
            let res = c.tx(DISP, REWARD, &json!({"update_global_index":{}}), &[]);
            if res.is_err() {
                *c = snap;
            } else {
                delta.insert(KUSD.into(), amt.0 as i128);
            }
            Outcome { res, supply_delta: delta, is_env: false }
        }
        Op::SetPrice { atomics } => {
            c.price = atomics.0;
            Outcome { res: Ok(vec![]), supply_delta: delta, is_env: true }
        }
    }
}

// ---------------------------------------------------------------------------------------------
// constructors

pub fn exec(label: String, sender: &str, contract: &str, msg: Value, funds: &[(&str, u128)]) -> Action {
    Action {
        label,
        op: Op::Exec { sender: sender.into(), contract: contract.into(), msg, funds: funds.iter().map(|(d, a)| (d.to_string(), Amt(*a))).collect() },
        dev: 0,
    }
}
pub fn hook(name: &str) -> String {
    to_json_binary(&json!({ name: {} })).unwrap().to_base64()
}
pub fn bond(u: &str, a: u128) -> Action {
    exec(format!("bond({},{})", u, a), u, HUB, json!({"bond":{}}), &[(USEI, a)])
}
pub fn bond_st(u: &str, a: u128) -> Action {
    exec(format!("bond_stsei({},{})", u, a), u, HUB, json!({"bond_for_st_sei":{}}), &[(USEI, a)])
}
pub fn unbond(u: &str, tok: &str, a: u128) -> Action {
    exec(format!("unbond({},{},{})", u, tok, a), u, tok, json!({"send":{"contract":HUB,"amount":a.to_string(),"msg":hook("unbond")}}), &[])
}
pub fn convert(u: &str, tok: &str, a: u128) -> Action {
    exec(format!("convert({},{},{})", u, tok, a), u, tok, json!({"send":{"contract":HUB,"amount":a.to_string(),"msg":hook("convert")}}), &[])
}
pub fn unbond_from(spender: &str, owner: &str, tok: &str, a: u128) -> Action {
    exec(
        format!("unbond_from({},{},{},{})", spender, owner, tok, a),
        spender,
        tok,
        json!({"send_from":{"owner":owner,"contract":HUB,"amount":a.to_string(),"msg":hook("unbond")}}),
        &[],
    )
}
pub fn withdraw(u: &str) -> Action {
    exec(format!("withdraw({})", u), u, HUB, json!({"withdraw_unbonded":{}}), &[])
}
pub fn check_slashing(u: &str) -> Action {
    exec(format!("check_slashing({})", u), u, HUB, json!({"check_slashing":{}}), &[])
}
pub fn update_index(u: &str) -> Action {
    exec(format!("update_global_index({})", u), u, HUB, json!({"update_global_index":{"airdrop_hooks":null}}), &[])
}
pub fn transfer(u: &str, to: &str, tok: &str, a: u128) -> Action {
    exec(format!("transfer({},{},{},{})", u, to, tok, a), u, tok, json!({"transfer":{"recipient":to,"amount":a.to_string()}}), &[])
}
pub fn increase_allowance(owner: &str, spender: &str, tok: &str, a: u128, expires: Option<Value>) -> Action {
    exec(
        format!("increase_allowance({},{},{},{},{})", owner, spender, tok, a, expires.as_ref().map(|v| v.to_string()).unwrap_or("-".into())),
        owner,
        tok,
        json!({"increase_allowance":{"spender":spender,"amount":a.to_string(),"expires":expires}}),
        &[],
    )
}
pub fn decrease_allowance(owner: &str, spender: &str, tok: &str, a: u128, expires: Option<Value>) -> Action {
    exec(
        format!("decrease_allowance({},{},{},{},{})", owner, spender, tok, a, expires.as_ref().map(|v| v.to_string()).unwrap_or("-".into())),
        owner,
        tok,
        json!({"decrease_allowance":{"spender":spender,"amount":a.to_string(),"expires":expires}}),
        &[],
    )
}
pub fn transfer_from(spender: &str, owner: &str, to: &str, tok: &str, a: u128) -> Action {
    exec(
        format!("transfer_from({},{},{},{},{})", spender, owner, to, tok, a),
        spender,
        tok,
        json!({"transfer_from":{"owner":owner,"recipient":to,"amount":a.to_string()}}),
        &[],
    )
}
pub fn burn_from(spender: &str, owner: &str, tok: &str, a: u128) -> Action {
    exec(format!("burn_from({},{},{},{})", spender, owner, tok, a), spender, tok, json!({"burn_from":{"owner":owner,"amount":a.to_string()}}), &[])
}
pub fn send_to(u: &str, contract: &str, tok: &str, a: u128, hook_name: &str) -> Action {
    exec(
        format!("send({},{},{},{},{})", u, contract, tok, a, hook_name),
        u,
        tok,
        json!({"send":{"contract":contract,"amount":a.to_string(),"msg":hook(hook_name)}}),
        &[],
    )
}
pub fn claim(u: &str, to: Option<&str>) -> Action {
    exec(format!("claim_rewards({},{})", u, to.unwrap_or("-")), u, REWARD, json!({"claim_rewards":{"recipient":to}}), &[])
}
pub fn add_validator(sender: &str, v: &str) -> Action {
    exec(format!("add_validator({},{})", sender, v), sender, REG, json!({"add_validator":{"validator":{"address":v}}}), &[])
}
pub fn remove_validator(sender: &str, v: &str) -> Action {
    exec(format!("remove_validator({},{})", sender, v), sender, REG, json!({"remove_validator":{"address":v}}), &[])
}
pub fn advance(dt: u64) -> Action {
    Action { label: format!("advance(+{})", dt), op: Op::Advance { dt }, dev: 0 }
}
pub fn slash_bonded(v: &str, num: u128, den: u128) -> Action {
    Action { label: format!("slash_bonded({},{}/{})", v, num, den), op: Op::SlashBonded { val: v.into(), num: Amt(num), den: Amt(den) }, dev: 1 }
}
pub fn slash_unbonding(v: &str, num: u128, den: u128) -> Action {
    Action { label: format!("slash_unbonding({},{}/{})", v, num, den), op: Op::SlashUnbonding { val: v.into(), num: Amt(num), den: Amt(den) }, dev: 1 }
}
pub fn accrue(v: &str, denom: &str, amt: u128) -> Action {
    Action { label: format!("accrue({},{}{})", v, amt, denom), op: Op::Accrue { val: v.into(), denom: denom.into(), amt: Amt(amt) }, dev: 0 }
}
pub fn rogue(from: &str, to: &str, denom: &str, amt: u128) -> Action {
    Action { label: format!("rogue_transfer({}->{},{}{})", from, to, amt, denom), op: Op::BankSend { from: from.into(), to: to.into(), denom: denom.into(), amt: Amt(amt) }, dev: 1 }
}
pub fn deliver(amt: u128) -> Action {
    Action { label: format!("deliver_rewards({}kusd)", amt), op: Op::Deliver { amt: Amt(amt) }, dev: 0 }
}
pub fn bank_send(from: &str, to: &str, denom: &str, amt: u128) -> Action {
    Action { label: format!("bank_send({}->{},{}{})", from, to, amt, denom), op: Op::BankSend { from: from.into(), to: to.into(), denom: denom.into(), amt: Amt(amt) }, dev: 0 }
}

impl Action {
    pub fn exec_parts(&self) -> Option<(&str, &str, &Value)> {
        match &self.op {
            Op::Exec { sender, contract, msg, .. } => Some((sender, contract, msg)),
            _ => None,
        }
    }
    /// true if this is an execute on `contract` whose message's single top-level key is `key`
    pub fn is(&self, contract: &str, key: &str) -> bool {
        match self.exec_parts() {
            Some((_, c, m)) => c == contract && m.get(key).is_some(),
            None => false,
        }
    }
    pub fn sender(&self) -> &str {
        self.exec_parts().map(|p| p.0).unwrap_or("")
    }
    pub fn funds_of(&self, denom: &str) -> u128 {
        match &self.op {
            Op::Exec { funds, .. } => funds.iter().filter(|(d, _)| d == denom).map(|(_, a)| a.0).sum(),
            _ => 0,
        }
    }
    /// for cw20 send/send_from to the hub: (hook name, amount, cw20 owner whose tokens move)
    pub fn hub_hook(&self) -> Option<(String, u128, String)> {
        let (sender, _c, m) = self.exec_parts()?;
        let (inner, owner) = if let Some(s) = m.get("send") {
            (s, sender.to_string())
        } else if let Some(s) = m.get("send_from") {
            (s, s.get("owner")?.as_str()?.to_string())
        } else {
            return None;
        };
        if inner.get("contract")?.as_str()? != HUB {
            return None;
        }
        let amt: u128 = inner.get("amount")?.as_str()?.parse().ok()?;
        let b = cosmwasm_std::Binary::from_base64(inner.get("msg")?.as_str()?).ok()?;
        let v: Value = serde_json::from_slice(b.as_slice()).ok()?;
        let name = v.as_object()?.keys().next()?.clone();
        Some((name, amt, owner))
    }
}

pub fn dec(s: &str) -> Decimal {
    s.parse().unwrap()
}
