//! Deterministic chain model (DESIGN.md section 3.1): bank, staking, distribution, wasm router with
//! transactional storage and depth-first message dispatch. The six contracts run as the real Rust
//! entry points linked from /repo; only the chain around them is modelled here.
use cosmwasm_std::testing::MockApi;
use cosmwasm_std::{
    from_json, Addr, BankMsg, BankQuery, Binary, BlockInfo, Coin, ContractInfo, ContractResult,
    CosmosMsg, Decimal, Deps, DepsMut, DistributionMsg, Empty, Env, Fraction, MessageInfo, Order,
    Querier, QuerierResult, QuerierWrapper, QueryRequest, Record, ReplyOn, Response, StakingMsg,
    StakingQuery, Storage, SystemError, SystemResult, Timestamp, Uint128, WasmMsg, WasmQuery,
};
use serde_json::{json, Value};
use sha2::{Digest, Sha256};
use std::cell::RefCell;
use std::collections::BTreeMap;
use std::panic::{catch_unwind, AssertUnwindSafe};

pub const HUB: &str = "hub";
pub const BSEI: &str = "bsei";
pub const STSEI: &str = "stsei";
pub const REWARD: &str = "reward";
pub const DISP: &str = "dispatcher";
pub const REG: &str = "registry";
pub const SWAP: &str = "swap";
pub const ORACLE: &str = "oracle";
pub const AIRDROP: &str = "airdrop";
pub const USEI: &str = "usei";
pub const KUSD: &str = "kusd";

#[derive(Clone, Default, Debug, PartialEq, Eq)]
pub struct MemStore(pub BTreeMap<Vec<u8>, Vec<u8>>);
impl Storage for MemStore {
    fn get(&self, key: &[u8]) -> Option<Vec<u8>> {
        self.0.get(key).cloned()
    }
    fn range<'a>(
        &'a self,
        start: Option<&[u8]>,
        end: Option<&[u8]>,
        order: Order,
    ) -> Box<dyn Iterator<Item = Record> + 'a> {
        use std::ops::Bound;
        if let (Some(a), Some(b)) = (start, end) {
            if a > b {
                return Box::new(std::iter::empty());
            }
        }
        let s = start.map(|x| Bound::Included(x.to_vec())).unwrap_or(Bound::Unbounded);
        let e = end.map(|x| Bound::Excluded(x.to_vec())).unwrap_or(Bound::Unbounded);
        let it = self.0.range((s, e)).map(|(k, v)| (k.clone(), v.clone()));
        match order {
            Order::Ascending => Box::new(it),
            Order::Descending => Box::new(it.rev()),
        }
    }
    fn set(&mut self, key: &[u8], value: &[u8]) {
        if value.is_empty() {
            panic!("MACHINERY: empty value written to storage (forbidden by cosmwasm)");
        }
        self.0.insert(key.to_vec(), value.to_vec());
    }
    fn remove(&mut self, key: &[u8]) {
        self.0.remove(key);
    }
}

#[derive(Clone, Copy, Debug, PartialEq, Eq, PartialOrd, Ord)]
pub enum Kind {
    Hub,
    Bsei,
    Stsei,
    Reward,
    Dispatcher,
    Registry,
    Swap,
    Oracle,
    Sink,
}

#[derive(Clone, Copy, Debug, PartialEq, Eq, PartialOrd, Ord)]
pub enum Mode {
    Ok,
    Fail,
    Garbage,
}

#[derive(Clone, Debug, PartialEq, Eq)]
pub struct Unb {
    pub delegator: String,
    pub validator: String,
    pub initial: u128,
    pub balance: u128,
    pub completion: u64,
}

/// One recorded effect of a transaction (the "effects log" the step oracles read).
#[derive(Clone, Debug, PartialEq)]
pub enum Fx {
    Exec { contract: String, sender: String, msg: Value, funds: Vec<(String, u128)> },
    Attrs { contract: String, attrs: Vec<(String, String)> },
    BankSend { from: String, to: String, coins: Vec<(String, u128)> },
    Delegate { delegator: String, val: String, amt: u128 },
    Undelegate { delegator: String, val: String, amt: u128 },
    Redelegate { delegator: String, src: String, dst: String, amt: u128 },
    WithdrawReward { delegator: String, val: String, to: String, coins: Vec<(String, u128)> },
    SetWithdrawAddr { delegator: String, addr: String },
    SwapOut { to: String, denom: String, amt: u128 },
}

#[derive(Clone, Debug, PartialEq, Eq)]
pub struct Chain {
    pub time: u64,
    pub height: u64,
    pub unbonding_time: u64,
    pub bank: BTreeMap<(String, String), u128>,
    pub deleg: BTreeMap<(String, String), u128>,
    pub unbonding: Vec<Unb>,
    pub redeleg_until: BTreeMap<(String, String), u64>,
    pub pending: BTreeMap<(String, String), BTreeMap<String, u128>>,
    pub withdraw_addr: BTreeMap<String, String>,
    pub contracts: BTreeMap<String, (Kind, MemStore)>,
    pub validators: Vec<String>,
    /// oracle price: kusd per usei, as Decimal atomics (1e18 = 1.0)
    pub price: u128,
    pub swap_mode: Mode,
    pub oracle_mode: Mode,
    /// the hub parameters the deployment was configured with (epoch, unbonding period, peg fee and threshold as
    /// Decimal atomics): oracles judge against these, not against what the hub stores or reports
    pub hub_cfg: Option<(u64, u64, u128, u128)>,
}

pub type TxResult = Result<Vec<Fx>, String>;

thread_local! {
    /// contracts whose handler is running right now (their store is checked out); a smart query
    /// that re-enters one of them would observe stale storage in this model, so it is a machinery error.
    static BUSY: RefCell<Vec<String>> = RefCell::new(Vec::new());
    static MACHINERY: RefCell<Option<String>> = RefCell::new(None);
    /// > 0 while contract code runs under catch_unwind (its panics are transaction failures, not harness bugs)
    static IN_CONTRACT: std::cell::Cell<u32> = std::cell::Cell::new(0);
}
struct InContract;
impl InContract {
    fn enter() -> InContract {
        IN_CONTRACT.with(|c| c.set(c.get() + 1));
        InContract
    }
}
impl Drop for InContract {
    fn drop(&mut self) {
        IN_CONTRACT.with(|c| c.set(c.get().saturating_sub(1)));
    }
}

pub fn machinery_error() -> Option<String> {
    MACHINERY.with(|m| m.borrow().clone())
}
fn set_machinery(s: String) {
    MACHINERY.with(|m| {
        if m.borrow().is_none() {
            *m.borrow_mut() = Some(s)
        }
    });
}

struct ChainQuerier<'a> {
    chain: &'a Chain,
}

fn ok_bin(v: Value) -> QuerierResult {
    SystemResult::Ok(ContractResult::Ok(Binary::from(serde_json::to_vec(&v).unwrap())))
}

impl<'a> Querier for ChainQuerier<'a> {
    fn raw_query(&self, bin_request: &[u8]) -> QuerierResult {
        let req: QueryRequest<Empty> = match from_json(bin_request) {
            Ok(r) => r,
            Err(e) => {
                return SystemResult::Err(SystemError::InvalidRequest {
                    error: e.to_string(),
                    request: bin_request.into(),
                })
            }
        };
        let c = self.chain;
        match req {
            QueryRequest::Bank(BankQuery::Balance { address, denom }) => {
                let a = c.bal(&address, &denom);
                ok_bin(json!({"amount":{"denom":denom,"amount":a.to_string()}}))
            }
            QueryRequest::Bank(BankQuery::AllBalances { address }) => {
                let v: Vec<_> = c
                    .bank
                    .range((address.clone(), String::new())..)
                    .take_while(|((a, _), _)| *a == address)
                    .filter(|(_, amt)| **amt > 0)
                    .map(|((_, d), amt)| json!({"denom":d,"amount":amt.to_string()}))
                    .collect();
                ok_bin(json!({ "amount": v }))
            }
            QueryRequest::Staking(StakingQuery::BondedDenom {}) => ok_bin(json!({"denom": USEI})),
            QueryRequest::Staking(StakingQuery::AllDelegations { delegator }) => {
                let v: Vec<_> = c
                    .deleg
                    .iter()
                    .filter(|((d, _), _)| *d == delegator)
                    .map(|((d, val), amt)| json!({"delegator":d,"validator":val,"amount":{"denom":USEI,"amount":amt.to_string()}}))
                    .collect();
                ok_bin(json!({ "delegations": v }))
            }
            QueryRequest::Staking(StakingQuery::Delegation { delegator, validator }) => {
                let amt = c.delegation(&delegator, &validator);
                if !c.has_delegation(&delegator, &validator) {
                    ok_bin(json!({ "delegation": null }))
                } else {
                    let can = c.can_redelegate(&delegator, &validator);
                    let acc: Vec<_> = c
                        .pending
                        .get(&(delegator.clone(), validator.clone()))
                        .map(|m| m.iter().filter(|(_, a)| **a > 0).map(|(d, a)| json!({"denom":d,"amount":a.to_string()})).collect())
                        .unwrap_or_default();
                    ok_bin(json!({"delegation":{"delegator":delegator,"validator":validator,
                        "amount":{"denom":USEI,"amount":amt.to_string()},
                        "can_redelegate":{"denom":USEI,"amount":can.to_string()},
                        "accumulated_rewards":acc}}))
                }
            }
            QueryRequest::Wasm(WasmQuery::Smart { contract_addr, msg }) => c.smart_query_raw(&contract_addr, &msg),
            other => SystemResult::Err(SystemError::UnsupportedRequest { kind: format!("{:?}", other).chars().take(40).collect() }),
        }
    }
}

fn query_contract(kind: Kind, deps: Deps, env: Env, msg: &Binary, c: &Chain) -> Result<Binary, String> {
    macro_rules! q {
        ($f:path) => {{
            let m = from_json(msg).map_err(|e| e.to_string())?;
            $f(deps, env, m).map_err(|e| e.to_string())
        }};
    }
    match kind {
        Kind::Hub => q!(basset_sei_hub::contract::query),
        Kind::Bsei => q!(basset_sei_token_bsei::contract::query),
        Kind::Stsei => q!(basset_sei_token_stsei::contract::query),
        Kind::Reward => q!(basset_sei_reward::contract::query),
        Kind::Dispatcher => q!(basset_sei_rewards_dispatcher::contract::query),
        Kind::Registry => q!(basset_sei_validators_registry::contract::query),
        Kind::Oracle => match c.oracle_mode {
            Mode::Ok => Ok(Binary::from(serde_json::to_vec(&json!(Decimal::new(Uint128::new(c.price)).to_string())).unwrap())),
            Mode::Fail => Err("oracle: price feed unavailable".into()),
            Mode::Garbage => Ok(Binary::from(b"{\"garbage\":[1,2".to_vec())),
        },
        Kind::Swap => match c.swap_mode {
            Mode::Ok => {
                let m: basset::swap_ext::SwapQueryMsg = from_json(msg).map_err(|e| e.to_string())?;
                match m {
                    basset::swap_ext::SwapQueryMsg::QuerySimulation { offer_asset, asset_infos } => {
                        let from = offer_asset.info.to_string();
                        let to = asset_infos[1].to_string();
                        let out = c.swap_out(&from, &to, offer_asset.amount.u128());
                        Ok(Binary::from(serde_json::to_vec(&json!({"return_amount":out.to_string(),"spread_amount":"0","commission_amount":"0"})).unwrap()))
                    }
                    _ => Err("swap: unsupported query".into()),
                }
            }
            Mode::Fail => Err("swap: pool unavailable".into()),
            Mode::Garbage => Ok(Binary::from(b"[[[".to_vec())),
        },
        Kind::Sink => Err("sink: no queries".into()),
    }
}

fn exec_contract(kind: Kind, deps: DepsMut, env: Env, info: MessageInfo, msg: &Binary) -> Result<Response, String> {
    macro_rules! e {
        ($f:path) => {{
            let m = from_json(msg).map_err(|e| format!("parse: {}", e))?;
            $f(deps, env, info, m).map_err(|e| e.to_string())
        }};
    }
    match kind {
        Kind::Hub => e!(basset_sei_hub::contract::execute),
        Kind::Bsei => e!(basset_sei_token_bsei::contract::execute),
        Kind::Stsei => e!(basset_sei_token_stsei::contract::execute),
        Kind::Reward => e!(basset_sei_reward::contract::execute),
        Kind::Dispatcher => e!(basset_sei_rewards_dispatcher::contract::execute),
        Kind::Registry => e!(basset_sei_validators_registry::contract::execute),
        _ => unreachable!(),
    }
}

fn panic_text(p: Box<dyn std::any::Any + Send>) -> String {
    p.downcast_ref::<String>().cloned().or(p.downcast_ref::<&str>().map(|s| s.to_string())).unwrap_or_else(|| "?".into())
}

fn coins_vec(c: &[Coin]) -> Vec<(String, u128)> {
    c.iter().map(|c| (c.denom.clone(), c.amount.u128())).collect()
}

impl Chain {
    pub fn new(time: u64, unbonding_time: u64, validators: &[&str]) -> Chain {
        Chain {
            time,
            height: 1,
            unbonding_time,
            bank: Default::default(),
            deleg: Default::default(),
            unbonding: vec![],
            redeleg_until: Default::default(),
            pending: Default::default(),
            withdraw_addr: Default::default(),
            contracts: Default::default(),
            validators: validators.iter().map(|s| s.to_string()).collect(),
            price: 1_000_000_000_000_000_000,
            swap_mode: Mode::Ok,
            oracle_mode: Mode::Ok,
            hub_cfg: None,
        }
    }
    pub fn env(&self, contract: &str) -> Env {
        Env {
            block: BlockInfo { height: self.height, time: Timestamp::from_seconds(self.time), chain_id: "krp".into() },
            transaction: None,
            contract: ContractInfo { address: Addr::unchecked(contract) },
        }
    }
    pub fn price_dec(&self) -> Decimal {
        Decimal::new(Uint128::new(self.price))
    }
    pub fn swap_out(&self, from: &str, to: &str, amt: u128) -> u128 {
        let a = Uint128::new(amt);
        if from == USEI && to == KUSD {
            (a * self.price_dec()).u128()
        } else if from == KUSD && to == USEI {
            match self.price_dec().inv() {
                Some(i) => (a * i).u128(),
                None => 0,
            }
        } else {
            amt
        }
    }
    pub fn bal(&self, a: &str, d: &str) -> u128 {
        self.bank.get(&(a.to_string(), d.to_string())).copied().unwrap_or(0)
    }
    pub fn credit(&mut self, a: &str, d: &str, amt: u128) {
        if amt > 0 {
            *self.bank.entry((a.to_string(), d.to_string())).or_insert(0) += amt;
        }
    }
    pub fn delegation(&self, d: &str, v: &str) -> u128 {
        self.deleg.get(&(d.to_string(), v.to_string())).copied().unwrap_or(0)
    }
    /// a delegation slashed down to zero tokens still exists (it keeps its shares), as in the SDK
    pub fn has_delegation(&self, d: &str, v: &str) -> bool {
        self.deleg.contains_key(&(d.to_string(), v.to_string()))
    }
    pub fn total_delegated(&self, d: &str) -> u128 {
        self.deleg.iter().filter(|((x, _), _)| x == d).map(|(_, a)| *a).sum()
    }
    pub fn can_redelegate(&self, d: &str, v: &str) -> u128 {
        match self.redeleg_until.get(&(d.to_string(), v.to_string())) {
            Some(t) if *t > self.time => 0,
            _ => self.delegation(d, v),
        }
    }
    pub fn pending_total(&self, d: &str) -> BTreeMap<String, u128> {
        let mut m = BTreeMap::new();
        for ((dd, _), p) in &self.pending {
            if dd == d {
                for (den, a) in p {
                    *m.entry(den.clone()).or_insert(0) += *a;
                }
            }
        }
        m
    }
    /// Σ of a denom over every place coins can be (conservation checks).
    pub fn total(&self, denom: &str) -> u128 {
        let mut t: u128 = self.bank.iter().filter(|((_, d), _)| d == denom).map(|(_, a)| *a).sum();
        if denom == USEI {
            t += self.deleg.values().sum::<u128>();
            t += self.unbonding.iter().map(|u| u.balance).sum::<u128>();
        }
        t += self.pending.values().map(|m| m.get(denom).copied().unwrap_or(0)).sum::<u128>();
        t
    }

    fn bank_send(&mut self, from: &str, to: &str, coins: &[(String, u128)], strict: bool) -> Result<(), String> {
        let mut seen: Vec<&str> = vec![];
        for (denom, amt) in coins {
            if seen.contains(&denom.as_str()) {
                return Err(format!("bank: duplicate denom {}", denom));
            }
            seen.push(denom);
            if *amt == 0 {
                if strict {
                    return Err(format!("bank: invalid coins: zero amount of {} from {} to {}", denom, from, to));
                }
                continue;
            }
            let k = (from.to_string(), denom.clone());
            let have = self.bank.get(&k).copied().unwrap_or(0);
            if have < *amt {
                return Err(format!("bank: insufficient funds: {} has {}{} < {}", from, have, denom, amt));
            }
            if have == *amt {
                self.bank.remove(&k);
            } else {
                self.bank.insert(k, have - *amt);
            }
            *self.bank.entry((to.to_string(), denom.clone())).or_insert(0) += *amt;
        }
        Ok(())
    }
    fn auto_withdraw(&mut self, delegator: &str, validator: &str, fx: &mut Vec<Fx>, explicit: bool) {
        let to = self.withdraw_addr.get(delegator).cloned().unwrap_or(delegator.to_string());
        let mut coins = vec![];
        if let Some(p) = self.pending.remove(&(delegator.to_string(), validator.to_string())) {
            for (d, a) in p {
                if a > 0 {
                    *self.bank.entry((to.clone(), d.clone())).or_insert(0) += a;
                    coins.push((d, a));
                }
            }
        }
        if explicit || !coins.is_empty() {
            fx.push(Fx::WithdrawReward { delegator: delegator.into(), val: validator.into(), to, coins });
        }
    }

    // ---- environment events ------------------------------------------------------------
    pub fn advance(&mut self, dt: u64) {
        self.time += dt;
        self.height += 1;
        let now = self.time;
        let (done, rest): (Vec<_>, Vec<_>) = self.unbonding.drain(..).partition(|u| u.completion <= now);
        self.unbonding = rest;
        for u in done {
            if u.balance > 0 {
                *self.bank.entry((u.delegator, USEI.into())).or_insert(0) += u.balance;
            }
        }
        self.redeleg_until.retain(|_, t| *t > now);
    }
    /// returns burned amount
    pub fn slash_bonded(&mut self, v: &str, num: u128, den: u128) -> u128 {
        let mut burned = 0;
        for ((_, val), a) in self.deleg.iter_mut() {
            if val == v {
                // surviving = floor(a*(1-f))
                let surv = *a * (den - num) / den;
                burned += *a - surv;
                *a = surv;
            }
        }
        burned
    }
    pub fn slash_unbonding(&mut self, v: &str, num: u128, den: u128) -> u128 {
        let mut burned = 0;
        for u in self.unbonding.iter_mut() {
            if u.validator == v {
                let s = (u.initial * num / den).min(u.balance);
                u.balance -= s;
                burned += s;
            }
        }
        burned
    }
    pub fn accrue(&mut self, delegator: &str, v: &str, denom: &str, amt: u128) -> bool {
        if self.delegation(delegator, v) == 0 || amt == 0 {
            return false;
        }
        *self.pending.entry((delegator.into(), v.into())).or_default().entry(denom.into()).or_insert(0) += amt;
        true
    }

    // ---- transactions ------------------------------------------------------------------
    /// One top-level transaction: all or nothing.
    pub fn tx(&mut self, sender: &str, contract: &str, msg: &Value, funds: &[(String, u128)]) -> TxResult {
        let snap = self.clone();
        let mut fx = vec![];
        let bin = Binary::from(serde_json::to_vec(msg).unwrap());
        BUSY.with(|b| b.borrow_mut().clear());
        match self.exec_wasm(sender, contract, &bin, funds, &mut fx, 0) {
            Ok(()) => Ok(fx),
            Err(e) => {
                *self = snap;
                BUSY.with(|b| b.borrow_mut().clear());
                if e.contains("MACHINERY") {
                    set_machinery(e.clone());
                }
                Err(e)
            }
        }
    }
    /// top-level bank send by a user
    pub fn tx_bank_send(&mut self, from: &str, to: &str, coins: &[(String, u128)]) -> TxResult {
        let snap = self.clone();
        if coins.is_empty() {
            return Err("bank: empty send".into());
        }
        match self.bank_send(from, to, coins, true) {
            Ok(()) => Ok(vec![Fx::BankSend { from: from.into(), to: to.into(), coins: coins.to_vec() }]),
            Err(e) => {
                *self = snap;
                Err(e)
            }
        }
    }

    fn exec_wasm(&mut self, sender: &str, contract: &str, msg: &Binary, funds: &[(String, u128)], fx: &mut Vec<Fx>, depth: u32) -> Result<(), String> {
        if depth > 16 {
            return Err("MACHINERY: call depth".into());
        }
        let kind = match self.contracts.get(contract) {
            Some((k, _)) => *k,
            None => return Err(format!("wasm: no such contract {}", contract)),
        };
        // funds move first; zero-amount coins are dropped by wasmd's coin conversion
        let funds: Vec<(String, u128)> = funds.iter().filter(|(_, a)| *a > 0).cloned().collect();
        self.bank_send(sender, contract, &funds, false)?;
        let msg_json: Value = serde_json::from_slice(msg.as_slice()).unwrap_or(Value::Null);
        fx.push(Fx::Exec { contract: contract.into(), sender: sender.into(), msg: msg_json, funds: funds.clone() });
        let env = self.env(contract);
        let info = MessageInfo { sender: Addr::unchecked(sender), funds: funds.iter().map(|(d, a)| Coin::new(*a, d.as_str())).collect() };
        let resp: Response = match kind {
            Kind::Swap => {
                match self.swap_mode {
                    Mode::Fail => return Err("swap: execution failed".into()),
                    Mode::Garbage => Response::new(),
                    Mode::Ok => {
                        let m: basset::swap_ext::SwapExecteMsg = from_json(msg).map_err(|e| format!("swap parse: {}", e))?;
                        let basset::swap_ext::SwapExecteMsg::SwapDenom { from_coin, target_denom, to_address } = m;
                        let attached = funds.iter().find(|(d, _)| *d == from_coin.denom).map(|(_, a)| *a).unwrap_or(0);
                        if attached != from_coin.amount.u128() || from_coin.amount.is_zero() {
                            return Err(format!("swap: funds {} do not match from_coin {}", attached, from_coin));
                        }
                        let out = self.swap_out(&from_coin.denom, &target_denom, from_coin.amount.u128());
                        let to = to_address.unwrap_or(sender.to_string());
                        self.credit(&to, &target_denom, out);
                        fx.push(Fx::SwapOut { to, denom: target_denom, amt: out });
                        Response::new()
                    }
                }
            }
            Kind::Oracle | Kind::Sink => Response::new(),
            _ => {
                let api = MockApi::default();
                let mut store = std::mem::take(&mut self.contracts.get_mut(contract).unwrap().1);
                BUSY.with(|b| b.borrow_mut().push(contract.to_string()));
                let r = {
                    let q = ChainQuerier { chain: &*self };
                    let _g = InContract::enter();
                    catch_unwind(AssertUnwindSafe(|| {
                        let deps = DepsMut { storage: &mut store, api: &api, querier: QuerierWrapper::new(&q) };
                        exec_contract(kind, deps, env, info, msg)
                    }))
                };
                BUSY.with(|b| {
                    b.borrow_mut().pop();
                });
                self.contracts.get_mut(contract).unwrap().1 = store;
                match r {
                    Ok(Ok(resp)) => resp,
                    Ok(Err(e)) => return Err(format!("{}: {}", contract, e)),
                    Err(p) => {
                        let t = panic_text(p);
                        return Err(format!("{}: PANIC {}", contract, t));
                    }
                }
            }
        };
        if !resp.attributes.is_empty() {
            fx.push(Fx::Attrs { contract: contract.into(), attrs: resp.attributes.iter().map(|a| (a.key.clone(), a.value.clone())).collect() });
        }
        for sub in resp.messages {
            if sub.reply_on != ReplyOn::Never {
                return Err("MACHINERY: reply mode other than Never".into());
            }
            self.dispatch(contract, sub.msg, fx, depth)?;
        }
        Ok(())
    }

    fn dispatch(&mut self, from: &str, msg: CosmosMsg, fx: &mut Vec<Fx>, depth: u32) -> Result<(), String> {
        match msg {
            CosmosMsg::Bank(BankMsg::Send { to_address, amount }) => {
                if amount.is_empty() {
                    // wasmd's encoder drops a send with an empty coin list
                    return Ok(());
                }
                let coins = coins_vec(&amount);
                self.bank_send(from, &to_address, &coins, true)?;
                fx.push(Fx::BankSend { from: from.into(), to: to_address, coins });
                Ok(())
            }
            CosmosMsg::Staking(StakingMsg::Delegate { validator, amount }) => {
                if !self.validators.contains(&validator) {
                    return Err(format!("staking: validator {} does not exist", validator));
                }
                if amount.denom != USEI || amount.amount.is_zero() {
                    return Err(format!("staking: invalid delegation amount {}", amount));
                }
                if self.has_delegation(from, &validator) {
                    self.auto_withdraw(from, &validator, fx, false);
                }
                let k = (from.to_string(), USEI.to_string());
                let have = self.bank.get(&k).copied().unwrap_or(0);
                if have < amount.amount.u128() {
                    return Err(format!("staking: insufficient funds to delegate {} < {}", have, amount.amount));
                }
                if have == amount.amount.u128() {
                    self.bank.remove(&k);
                } else {
                    self.bank.insert(k, have - amount.amount.u128());
                }
                *self.deleg.entry((from.to_string(), validator.clone())).or_insert(0) += amount.amount.u128();
                fx.push(Fx::Delegate { delegator: from.into(), val: validator, amt: amount.amount.u128() });
                Ok(())
            }
            CosmosMsg::Staking(StakingMsg::Undelegate { validator, amount }) => {
                let k = (from.to_string(), validator.clone());
                let have = self.deleg.get(&k).copied().unwrap_or(0);
                if amount.denom != USEI || amount.amount.is_zero() || have < amount.amount.u128() {
                    return Err(format!("staking: invalid undelegation {} from {} (delegated {})", amount, validator, have));
                }
                self.auto_withdraw(from, &validator, fx, false);
                if have == amount.amount.u128() {
                    self.deleg.remove(&k);
                } else {
                    self.deleg.insert(k, have - amount.amount.u128());
                }
                self.unbonding.push(Unb {
                    delegator: from.into(),
                    validator: validator.clone(),
                    initial: amount.amount.u128(),
                    balance: amount.amount.u128(),
                    completion: self.time + self.unbonding_time,
                });
                fx.push(Fx::Undelegate { delegator: from.into(), val: validator, amt: amount.amount.u128() });
                Ok(())
            }
            CosmosMsg::Staking(StakingMsg::Redelegate { src_validator, dst_validator, amount }) => {
                let k = (from.to_string(), src_validator.clone());
                let have = self.deleg.get(&k).copied().unwrap_or(0);
                if amount.denom != USEI || amount.amount.is_zero() || have < amount.amount.u128() {
                    return Err(format!("staking: invalid redelegation {} from {} (delegated {})", amount, src_validator, have));
                }
                if !self.validators.contains(&dst_validator) || dst_validator == src_validator {
                    return Err(format!("staking: bad redelegation destination {}", dst_validator));
                }
                if self.can_redelegate(from, &src_validator) < amount.amount.u128() {
                    return Err("staking: redelegation to this validator already in progress; first redelegation to this validator must complete before next redelegation".into());
                }
                self.auto_withdraw(from, &src_validator, fx, false);
                if self.has_delegation(from, &dst_validator) {
                    self.auto_withdraw(from, &dst_validator, fx, false);
                }
                if have == amount.amount.u128() {
                    self.deleg.remove(&k);
                } else {
                    self.deleg.insert(k, have - amount.amount.u128());
                }
                *self.deleg.entry((from.to_string(), dst_validator.clone())).or_insert(0) += amount.amount.u128();
                self.redeleg_until.insert((from.to_string(), dst_validator.clone()), self.time + self.unbonding_time);
                fx.push(Fx::Redelegate { delegator: from.into(), src: src_validator, dst: dst_validator, amt: amount.amount.u128() });
                Ok(())
            }
            CosmosMsg::Distribution(DistributionMsg::SetWithdrawAddress { address }) => {
                self.withdraw_addr.insert(from.into(), address.clone());
                fx.push(Fx::SetWithdrawAddr { delegator: from.into(), addr: address });
                Ok(())
            }
            CosmosMsg::Distribution(DistributionMsg::WithdrawDelegatorReward { validator }) => {
                if !self.has_delegation(from, &validator) {
                    return Err(format!("distribution: no delegation for ({}, {})", from, validator));
                }
                self.auto_withdraw(from, &validator, fx, true);
                Ok(())
            }
            CosmosMsg::Wasm(WasmMsg::Execute { contract_addr, msg, funds }) => {
                let f = coins_vec(&funds);
                self.exec_wasm(from, &contract_addr, &msg, &f, fx, depth + 1)
            }
            other => Err(format!("MACHINERY: unsupported message {:?}", other)),
        }
    }

    pub fn instantiate(&mut self, kind: Kind, addr: &str, sender: &str, msg: &Value) -> Result<(), String> {
        if self.contracts.contains_key(addr) {
            return Err("MACHINERY: address in use".into());
        }
        let bin = Binary::from(serde_json::to_vec(msg).unwrap());
        let mut store = MemStore::default();
        let env = self.env(addr);
        let info = MessageInfo { sender: Addr::unchecked(sender), funds: vec![] };
        let api = MockApi::default();
        let r = {
            let q = ChainQuerier { chain: &*self };
            let _g = InContract::enter();
            catch_unwind(AssertUnwindSafe(|| -> Result<Response, String> {
                let deps = DepsMut { storage: &mut store, api: &api, querier: QuerierWrapper::new(&q) };
                macro_rules! i {
                    ($f:path) => {{
                        let m = from_json(&bin).map_err(|e| format!("parse: {}", e))?;
                        $f(deps, env, info, m).map_err(|e| e.to_string())
                    }};
                }
                match kind {
                    Kind::Hub => i!(basset_sei_hub::contract::instantiate),
                    Kind::Bsei => i!(basset_sei_token_bsei::contract::instantiate),
                    Kind::Stsei => i!(basset_sei_token_stsei::contract::instantiate),
                    Kind::Reward => i!(basset_sei_reward::contract::instantiate),
                    Kind::Dispatcher => i!(basset_sei_rewards_dispatcher::contract::instantiate),
                    Kind::Registry => i!(basset_sei_validators_registry::contract::instantiate),
                    _ => Ok(Response::new()),
                }
            }))
        };
        match r {
            Ok(Ok(resp)) => {
                if !resp.messages.is_empty() {
                    return Err("MACHINERY: instantiate emitted messages".into());
                }
                self.contracts.insert(addr.into(), (kind, store));
                Ok(())
            }
            Ok(Err(e)) => Err(format!("{}: {}", addr, e)),
            Err(p) => Err(format!("{}: PANIC {}", addr, panic_text(p))),
        }
    }

    fn smart_query_raw(&self, contract_addr: &str, msg: &Binary) -> QuerierResult {
        let Some((kind, store)) = self.contracts.get(contract_addr) else {
            return SystemResult::Err(SystemError::NoSuchContract { addr: contract_addr.to_string() });
        };
        if BUSY.with(|b| b.borrow().iter().any(|x| x == contract_addr)) {
            set_machinery(format!("MACHINERY: re-entrant smart query into executing contract {}", contract_addr));
            return SystemResult::Err(SystemError::Unknown {});
        }
        let api = MockApi::default();
        let deps = Deps { storage: store, api: &api, querier: QuerierWrapper::new(self.as_querier_ref()) };
        let env = self.env(contract_addr);
        let r = {
            let _g = InContract::enter();
            catch_unwind(AssertUnwindSafe(|| query_contract(*kind, deps, env, msg, self)))
        };
        match r {
            Ok(Ok(b)) => SystemResult::Ok(ContractResult::Ok(b)),
            Ok(Err(e)) => SystemResult::Ok(ContractResult::Err(e)),
            Err(p) => SystemResult::Ok(ContractResult::Err(format!("PANIC in query: {}", panic_text(p)))),
        }
    }
    fn as_querier_ref(&self) -> &dyn Querier {
        // ChainQuerier is a transparent wrapper around &Chain
        // SAFETY-free trick: Chain itself implements Querier by delegation (below).
        self
    }
    pub fn query_value(&self, contract: &str, msg: &Value) -> Result<Value, String> {
        let bin = Binary::from(serde_json::to_vec(msg).unwrap());
        match self.smart_query_raw(contract, &bin) {
            SystemResult::Ok(ContractResult::Ok(b)) => serde_json::from_slice(b.as_slice()).map_err(|e| format!("query result parse: {}", e)),
            SystemResult::Ok(ContractResult::Err(e)) => Err(e),
            SystemResult::Err(e) => Err(e.to_string()),
        }
    }
    pub fn query<T: serde::de::DeserializeOwned>(&self, contract: &str, msg: &impl serde::Serialize) -> Result<T, String> {
        let w: QuerierWrapper = QuerierWrapper::new(self);
        w.query_wasm_smart(contract, msg).map_err(|e| e.to_string())
    }

    // ---- canonical fingerprint -----------------------------------------------------------
    pub fn feed(&self, h: &mut Sha256) {
        fn s(h: &mut Sha256, x: &str) {
            h.update((x.len() as u32).to_le_bytes());
            h.update(x.as_bytes());
        }
        fn b(h: &mut Sha256, x: &[u8]) {
            h.update((x.len() as u32).to_le_bytes());
            h.update(x);
        }
        h.update(self.time.to_le_bytes());
        h.update(self.height.to_le_bytes());
        h.update(self.unbonding_time.to_le_bytes());
        h.update(self.price.to_le_bytes());
        h.update([self.swap_mode as u8, self.oracle_mode as u8]);
        if let Some(k) = &self.hub_cfg {
            h.update(format!("cfg{:?}", k).as_bytes());
        }
        for ((a, d), v) in &self.bank {
            if *v > 0 {
                s(h, a);
                s(h, d);
                h.update(v.to_le_bytes());
            }
        }
        h.update(b"|D");
        for ((a, d), v) in &self.deleg {
            s(h, a);
            s(h, d);
            h.update(v.to_le_bytes());
        }
        h.update(b"|U");
        for u in &self.unbonding {
            s(h, &u.delegator);
            s(h, &u.validator);
            h.update(u.initial.to_le_bytes());
            h.update(u.balance.to_le_bytes());
            h.update(u.completion.to_le_bytes());
        }
        h.update(b"|R");
        for ((a, d), v) in &self.redeleg_until {
            s(h, a);
            s(h, d);
            h.update(v.to_le_bytes());
        }
        h.update(b"|P");
        for ((a, d), m) in &self.pending {
            s(h, a);
            s(h, d);
            for (den, v) in m {
                s(h, den);
                h.update(v.to_le_bytes());
            }
        }
        h.update(b"|W");
        for (a, d) in &self.withdraw_addr {
            s(h, a);
            s(h, d);
        }
        h.update(b"|V");
        for v in &self.validators {
            s(h, v);
        }
        h.update(b"|C");
        for (k, (kind, st)) in &self.contracts {
            s(h, k);
            h.update([*kind as u8]);
            h.update((st.0.len() as u32).to_le_bytes());
            for (a, v) in &st.0 {
                b(h, a);
                b(h, v);
            }
        }
    }
    pub fn fingerprint(&self) -> [u8; 16] {
        let mut h = Sha256::new();
        self.feed(&mut h);
        let d = h.finalize();
        let mut o = [0u8; 16];
        o.copy_from_slice(&d[..16]);
        o
    }
}

impl Querier for Chain {
    fn raw_query(&self, bin_request: &[u8]) -> QuerierResult {
        ChainQuerier { chain: self }.raw_query(bin_request)
    }
}

/// run `f` with panic messages silenced; the caller catches the unwind and reports it in its own way
pub fn quiet_panics<T>(f: impl FnOnce() -> T) -> T {
    let _g = InContract::enter();
    f()
}

pub fn install_silent_panic_hook() {
    std::panic::set_hook(Box::new(|info| {
        let s = info.to_string();
        let in_contract = IN_CONTRACT.with(|c| c.get()) > 0;
        if !in_contract || s.contains("MACHINERY") || s.contains("krpmc") {
            eprintln!("krpmc MACHINERY panic (harness code, not a verdict): {}", s);
        }
    }));
}
