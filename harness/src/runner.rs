//! Running the jobs of one property check: exploration, known-findings matching, replay files,
//! evidence file, exit code.
use crate::actions::Action;
use crate::explore::*;
use serde_json::{json, Value};
use std::collections::BTreeMap;

#[derive(Clone, Copy, PartialEq, Eq, Debug)]
pub enum Tier {
    Quick,
    Thorough,
}
impl Tier {
    pub fn name(&self) -> &'static str {
        match self {
            Tier::Quick => "quick",
            Tier::Thorough => "thorough",
        }
    }
    pub fn pick<T>(&self, q: T, t: T) -> T {
        match self {
            Tier::Quick => q,
            Tier::Thorough => t,
        }
    }
}

/// Object-safe face of a scenario (BFS) or of a custom enumeration.
pub trait Runnable: Sync {
    fn name(&self) -> String;
    fn run(&self, perm: u64) -> Report;
    fn replay(&self, seed: &str, actions: &[Action], verbose: bool) -> Vec<(Viol, usize)>;
    fn has_seed(&self, _seed: &str) -> bool {
        true
    }
}

pub struct Bfs<S: Scenario> {
    pub sc: S,
    pub lim: Limits,
}
impl<S: Scenario> Runnable for Bfs<S> {
    fn name(&self) -> String {
        self.sc.name()
    }
    fn run(&self, perm: u64) -> Report {
        explore(&self.sc, &self.lim, perm)
    }
    fn replay(&self, seed: &str, actions: &[Action], verbose: bool) -> Vec<(Viol, usize)> {
        replay_verbose(&self.sc, seed, actions, verbose)
    }
    fn has_seed(&self, seed: &str) -> bool {
        self.sc.seeds().iter().any(|s| s.0 == seed)
    }
}
pub fn bfs<S: Scenario + 'static>(sc: S, max_depth: usize, max_secs: f64) -> Box<dyn Runnable> {
    Box::new(Bfs { sc, lim: Limits { max_depth, max_secs, max_states: 40_000_000 } })
}

pub struct Check {
    pub id: &'static str,
    pub jobs: Vec<Box<dyn Runnable>>,
    /// how cases are enumerated and what makes one non-trivial
    pub rule: String,
    pub assumptions: Vec<String>,
    /// trigger counters that must be non-zero, else the run is vacuous (machinery failure)
    pub essential: Vec<&'static str>,
}

#[derive(Clone, Debug)]
pub struct Known {
    pub property: String,
    pub oracle: String,
    pub sig: String,
    pub what: String,
    pub fixed: bool,
}

pub fn load_known(path: &str) -> Vec<Known> {
    let Ok(txt) = std::fs::read_to_string(path) else { return vec![] };
    let v: Value = serde_json::from_str(&txt).expect("known_findings.json must parse");
    let mut out = vec![];
    for e in v.get("findings").and_then(|x| x.as_array()).cloned().unwrap_or_default() {
        out.push(Known {
            property: e["property"].as_str().unwrap_or("").into(),
            oracle: e["oracle"].as_str().unwrap_or("").into(),
            sig: e["signature"].as_str().unwrap_or("").into(),
            what: e["what"].as_str().unwrap_or("").into(),
            fixed: e["status"].as_str().unwrap_or("") == "fixed",
        });
    }
    out
}

fn short_hash(s: &str) -> String {
    use sha2::{Digest, Sha256};
    let d = Sha256::digest(s.as_bytes());
    d.iter().take(5).map(|b| format!("{:02x}", b)).collect()
}

pub fn verif_dir() -> String {
    std::env::var("KRP_VERIF_DIR").unwrap_or_else(|_| "/verif".into())
}

/// returns the process exit code
pub fn run_check(chk: Check, tier: Tier, seed: u64) -> i32 {
    let t0 = std::time::Instant::now();
    let dir = verif_dir();
    let known = load_known(&format!("{}/known_findings.json", dir));
    let mut reports = vec![];
    for j in &chk.jobs {
        let r = j.run(seed);
        reports.push(r);
    }
    let mut states = 0;
    let mut transitions = 0;
    let mut nontrivial = 0;
    let mut validated = 0;
    let mut probe_execs = 0;
    let mut exhaustive = true;
    let mut counters: BTreeMap<String, u64> = BTreeMap::new();
    let mut samples: Vec<Value> = vec![];
    let mut per_job = vec![];
    let mut new_viols = 0;
    let mut known_hits = 0;
    let mut lines = vec![];
    for (ji, r) in reports.iter().enumerate() {
        states += r.states;
        transitions += r.transitions;
        nontrivial += r.nontrivial;
        validated += r.validated;
        probe_execs += r.probe_execs;
        exhaustive &= r.exhaustive;
        for (k, v) in &r.counters {
            *counters.entry(k.clone()).or_insert(0) += v;
        }
        for s in &r.samples {
            if samples.len() < 6 {
                let mut s = s.clone();
                s["scenario"] = json!(r.scenario);
                samples.push(s);
            }
        }
        per_job.push(json!({
            "scenario": r.scenario, "states": r.states, "transitions": r.transitions,
            "depth_completed": r.depth_completed, "depth_target": r.depth_target, "exhaustive_to_depth": r.exhaustive,
            "cap_hit": r.cap_hit, "layers": r.layers.iter().map(|(d,s,t)| json!({"depth":d,"new_states":s,"transitions":t})).collect::<Vec<_>>(),
            "visited_digest": r.digest, "seeds": r.seeds, "alphabet_at_first_seed": r.alphabet_sample, "wall_s": r.wall_s,
        }));
        for fv in &r.violations {
            // every violation is replayed twice before it is reported; divergence is a machinery error
            let job = &chk.jobs[ji];
            let r1 = job.replay(&fv.seed, &fv.actions, false);
            let r2 = job.replay(&fv.seed, &fv.actions, false);
            let hit = |r: &Vec<(Viol, usize)>| r.iter().any(|(v, _)| v.oracle == fv.viol.oracle && v.sig == fv.viol.sig);
            if !hit(&r1) || !hit(&r2) {
                eprintln!("krpmc MACHINERY: violation {} [{}] did not reproduce on replay (nondeterminism)", fv.viol.oracle, fv.viol.sig);
                return 2;
            }
            let is_known = known.iter().find(|k| !k.fixed && k.property == chk.id && k.oracle == fv.viol.oracle && k.sig == fv.viol.sig);
            let fname = format!("{}/replays/{}-{}.json", dir, chk.id, short_hash(&format!("{}|{}|{}", r.scenario, fv.viol.oracle, fv.viol.sig)));
            let rec = json!({
                "property": chk.id, "scenario": r.scenario, "seed": fv.seed, "oracle": fv.viol.oracle, "signature": fv.viol.sig,
                "detail": fv.viol.detail, "occurrences_in_run": fv.count, "depth": fv.depth,
                "actions": fv.actions,
                "labels": fv.actions.iter().map(|a| a.label.clone()).collect::<Vec<_>>(),
                "replay": format!("/verif/check {} --replay {}", chk.id, fname),
            });
            let _ = std::fs::create_dir_all(format!("{}/replays", dir));
            std::fs::write(&fname, serde_json::to_string_pretty(&rec).unwrap()).expect("write replay");
            match is_known {
                Some(k) => {
                    known_hits += 1;
                    lines.push(format!("KNOWN-FINDING: property={} {} [{} {}] replay={}", chk.id, k.what, fv.viol.oracle, fv.viol.sig, fname));
                }
                None => {
                    new_viols += 1;
                    lines.push(format!("VIOLATION property={} replay={}", chk.id, fname));
                    eprintln!("  violation oracle={} sig={} depth={} x{}: {}", fv.viol.oracle, fv.viol.sig, fv.depth, fv.count, fv.viol.detail);
                    eprintln!("    seed={} path={:?}", fv.seed, fv.actions.iter().map(|a| a.label.clone()).collect::<Vec<_>>());
                }
            }
        }
    }
    let mut vacuous = vec![];
    for e in &chk.essential {
        if counters.get(*e).copied().unwrap_or(0) == 0 {
            vacuous.push(e.to_string());
        }
    }
    let wall = t0.elapsed().as_secs_f64();
    let ev = json!({
        "property_id": chk.id,
        "tier": tier.name(),
        "seed": seed,
        "level": "model_checking",
        "coverage": {
            "states": states,
            "transitions": transitions,
            "traces_validated_against_impl": validated,
            "evaluations": transitions + probe_execs,
            "probe_executions_on_clones": probe_execs,
            "distinct_nontrivial": nontrivial,
            "rule": chk.rule,
            "samples": samples,
            "exhaustive": exhaustive,
            "trigger_counters": counters,
            "jobs": per_job,
            "explanation": "explicit-state BFS over the real contract code on the chain model; every transition is an execution of the implementation; traces_validated_against_impl counts transitions whose outcome was compared with an independent exact recomputation; distinct_nontrivial counts distinct (state, action) transitions on which an oracle premise held",
            "fingerprint_assumption": "128-bit SHA-256 prefix of the whole canonical state; collision probability < 1e-20 at these sizes",
        },
        "assumptions": chk.assumptions,
        "wall_s": wall,
        "violations": new_viols,
        "known_findings_reproduced": known_hits,
    });
    let _ = std::fs::create_dir_all(format!("{}/evidence", dir));
    std::fs::write(format!("{}/evidence/{}.json", dir, chk.id), serde_json::to_string_pretty(&ev).unwrap()).expect("write evidence");
    let mut printed: Vec<String> = vec![];
    for l in &lines {
        // one line per finding signature (several jobs may reproduce the same one)
        let key = if l.starts_with("KNOWN-FINDING") { l.split(" replay=").next().unwrap_or(l).to_string() } else { l.clone() };
        if !printed.contains(&key) {
            println!("{}", l);
            printed.push(key);
        }
    }
    println!(
        "{} {}: states={} transitions={} nontrivial={} validated={} exhaustive={} violations={} known={} wall={:.1}s",
        chk.id,
        tier.name(),
        states,
        transitions,
        nontrivial,
        validated,
        exhaustive,
        new_viols,
        known_hits,
        wall
    );
    if new_viols > 0 {
        return 1;
    }
    if !vacuous.is_empty() {
        eprintln!("krpmc MACHINERY: vacuous run, essential trigger counters are zero: {:?}", vacuous);
        return 2;
    }
    0
}

/// `krpmc replay <file>`: plain re-execution of a recorded counterexample on the current build.
pub fn run_replay(chk: Check, path: &str) -> i32 {
    let txt = std::fs::read_to_string(path).expect("read replay file");
    let v: Value = serde_json::from_str(&txt).expect("parse replay file");
    let scenario = v["scenario"].as_str().unwrap_or("");
    let seed = v["seed"].as_str().unwrap_or("");
    let oracle = v["oracle"].as_str().unwrap_or("");
    let sig = v["signature"].as_str().unwrap_or("");
    let actions: Vec<Action> = serde_json::from_value(v["actions"].clone()).expect("actions");
    let Some(job) = chk.jobs.iter().find(|j| j.name() == scenario && j.has_seed(seed)) else {
        eprintln!("krpmc: scenario {} not found in check {}", scenario, chk.id);
        return 2;
    };
    println!("replaying {} steps of scenario {} from seed {}", actions.len(), scenario, seed);
    let found = job.replay(seed, &actions, true);
    let hit = found.iter().any(|(v, _)| v.oracle == oracle && v.sig == sig);
    if hit {
        println!("VIOLATION property={} replay={}", chk.id, path);
        1
    } else {
        println!("replay: oracle {} [{}] holds on this build ({} other oracle reports)", oracle, sig, found.len());
        0
    }
}
