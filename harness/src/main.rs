mod actions;
mod auth;
mod chain;
mod deploy;
mod enumer;
mod explore;
mod fee;
mod hubcore;
mod obs;
mod params;
mod pause;
mod props;
mod reward;
mod runner;
mod selftest;
mod token;
mod unbondlc;

use runner::Tier;

fn usage() -> ! {
    eprintln!("usage: krpmc check <Cxx> [--tier quick|thorough] | krpmc replay <Cxx> <file> | krpmc selftest");
    std::process::exit(2)
}

fn main() {
    chain::install_silent_panic_hook();
    let args: Vec<String> = std::env::args().collect();
    if args.len() < 2 {
        usage();
    }
    let seed: u64 = std::env::var("VERIF_SEED").ok().and_then(|s| s.parse().ok()).unwrap_or(0);
    let code = match args[1].as_str() {
        "check" => {
            let id = args.get(2).cloned().unwrap_or_else(|| usage());
            let mut tier = match std::env::var("VERIF_TIER").as_deref() {
                Ok("thorough") => Tier::Thorough,
                _ => Tier::Quick,
            };
            let mut i = 3;
            while i < args.len() {
                if args[i] == "--tier" {
                    tier = match args.get(i + 1).map(|s| s.as_str()) {
                        Some("thorough") => Tier::Thorough,
                        Some("quick") => Tier::Quick,
                        _ => usage(),
                    };
                    i += 1;
                }
                i += 1;
            }
            match props::build(&id, tier) {
                Some(chk) => runner::run_check(chk, tier, seed),
                None => {
                    eprintln!("krpmc: unknown property {}", id);
                    2
                }
            }
        }
        "replay" => {
            let id = args.get(2).cloned().unwrap_or_else(|| usage());
            let path = args.get(3).cloned().unwrap_or_else(|| usage());
            // a replay file may come from either tier; thorough scenarios are supersets by name
            let mut code = 2;
            for tier in [Tier::Quick, Tier::Thorough] {
                if let Some(chk) = props::build(&id, tier) {
                    let txt = std::fs::read_to_string(&path).unwrap_or_default();
                    let v: serde_json::Value = serde_json::from_str(&txt).unwrap_or_default();
                    let scen = v["scenario"].as_str().unwrap_or("").to_string();
                    let seed = v["seed"].as_str().unwrap_or("").to_string();
                    if chk.jobs.iter().any(|j| j.name() == scen && j.has_seed(&seed)) {
                        code = runner::run_replay(chk, &path);
                        break;
                    }
                }
            }
            code
        }
        "selftest" => selftest::run(),
        _ => usage(),
    };
    std::process::exit(code)
}
