//! C11 — pause blocks every state-changing path except the owner's unpause; a pause/unpause
//! cycle is transparent. Run as a probe in every distinct state of a hub exploration, plus a small
//! scenario of its own for the legacy wait-list rule.
use crate::actions::*;
use crate::chain::*;
use crate::deploy::*;
use crate::explore::*;
use crate::obs::*;
use serde_json::{json, Value};
use sha2::{Digest, Sha256};

const PARAMS_KEY: &[u8] = b"\x00\x0bparameteres";

fn pause_msg(paused: Value) -> Value {
    json!({"update_params":{"epoch_period":null,"unbonding_period":null,"peg_recovery_fee":null,"er_threshold":null,"reward_denom":null,"paused":paused}})
}

/// fingerprint of everything except the stored representation of the pause flag
fn fp_modulo_pause_flag(c: &Chain) -> [u8; 16] {
    let mut c2 = c.clone();
    if let Some((_, st)) = c2.contracts.get_mut(HUB) {
        if let Some(raw) = st.0.get(PARAMS_KEY).cloned() {
            let mut v: Value = serde_json::from_slice(&raw).unwrap_or(Value::Null);
            let flag = v["paused"].as_bool().unwrap_or(false);
            v["paused"] = json!(flag);
            st.0.insert(PARAMS_KEY.to_vec(), serde_json::to_vec(&v).unwrap());
        }
    }
    c2.fingerprint()
}

fn hub_queries(c: &Chain) -> Vec<(String, Result<Value, String>)> {
    let mut out = vec![];
    let qs = vec![
        json!({"config":{}}),
        json!({"state":{}}),
        json!({"current_batch":{}}),
        json!({"parameters":{}}),
        json!({"all_history":{"start_from":null,"limit":100}}),
        json!({"new_owner":{}}),
        json!({"unbond_requests":{"address":ALICE}}),
        json!({"unbond_requests":{"address":BOB}}),
        json!({"withdrawable_unbonded":{"address":ALICE}}),
        json!({"withdrawable_unbonded":{"address":BOB}}),
    ];
    for q in qs {
        let mut r = c.query_value(HUB, &q);
        if q.get("parameters").is_some() {
            if let Ok(v) = &mut r {
                v["paused"] = Value::Null;
            }
        }
        out.push((q.to_string(), r));
    }
    out
}

fn matrix() -> Vec<(&'static str, Value, Vec<(&'static str, u128)>)> {
    vec![
        ("bond", json!({"bond":{}}), vec![(USEI, 50)]),
        ("bond_for_st_sei", json!({"bond_for_st_sei":{}}), vec![(USEI, 50)]),
        ("bond_rewards", json!({"bond_rewards":{}}), vec![(USEI, 50)]),
        ("update_global_index", json!({"update_global_index":{"airdrop_hooks":null}}), vec![]),
        ("withdraw_unbonded", json!({"withdraw_unbonded":{}}), vec![]),
        ("check_slashing", json!({"check_slashing":{}}), vec![]),
        ("receive(unbond)", json!({"receive":{"sender":ALICE,"amount":"1","msg":hook("unbond")}}), vec![]),
        ("receive(convert)", json!({"receive":{"sender":ALICE,"amount":"1","msg":hook("convert")}}), vec![]),
        ("update_config", json!({"update_config":{"rewards_dispatcher_contract":null,"validators_registry_contract":null,"bsei_token_contract":null,"stsei_token_contract":null,"airdrop_registry_contract":"airdrop2","rewards_contract":null,"update_reward_index_addr":null}}), vec![]),
        ("set_owner", json!({"set_owner":{"new_owner_addr":NOMINEE}}), vec![]),
        ("accept_ownership", json!({"accept_ownership":{}}), vec![]),
        ("swap_hook", json!({"swap_hook":{"airdrop_token_contract":BSEI,"airdrop_swap_contract":AIRDROP,"swap_msg":hook("swap")}}), vec![]),
        ("claim_airdrop", json!({"claim_airdrop":{"airdrop_token_contract":BSEI,"airdrop_contract":AIRDROP,"airdrop_swap_contract":AIRDROP,"claim_msg":hook("claim"),"swap_msg":hook("swap")}}), vec![]),
        ("redelegate_proxy", json!({"redelegate_proxy":{"src_validator":"val1","redelegations":[]}}), vec![]),
    ]
}

const SENDERS: [&str; 11] = [OWNER, ALICE, BOB, HUB, DISP, REG, BSEI, STSEI, UPDATER, AIRDROP, EVE];

/// the probe run in every distinct state `c` (not paused) of the hub exploration
pub fn c11_probe(c: &Chain, o: &HubObs, alphabet: &[Action], cx: &mut Cx) {
    if o.params.paused.unwrap_or(false) {
        return;
    }
    cx.trigger("c11_states_probed");
    cx.validated();
    let q_before = hub_queries(c);
    let mut p = c.clone();
    for u in SENDERS {
        p.credit(u, USEI, 1000);
    }
    let mut c_funded = c.clone();
    for u in SENDERS {
        c_funded.credit(u, USEI, 1000);
    }
    let r = apply(&mut p, &exec("pause".into(), OWNER, HUB, pause_msg(json!(true)), &[]));
    cx.probe(1);
    if !r.ok() {
        cx.viol("C11.pause", "the owner can not pause the hub", r.err().to_string());
        return;
    }
    // queries keep working and are unaffected
    let q_paused = hub_queries(&p);
    for ((name, a), (_, b)) in q_before.iter().zip(q_paused.iter()) {
        if b.is_err() {
            cx.viol("C11.queries", "a hub query fails while paused", format!("{}: {:?}", name, b));
        } else if a != b {
            cx.viol("C11.queries", "a hub query answers differently while paused", format!("{}: {:?} vs {:?}", name, a, b));
        }
    }
    let base = p.fingerprint();
    // every hub message x sender fails and changes nothing
    for (label, msg, funds) in matrix() {
        for s in SENDERS {
            let mut cc = p.clone();
            let a = exec(format!("paused: {} by {}", label, s), s, HUB, msg.clone(), &funds);
            let out = apply(&mut cc, &a);
            cx.probe(1);
            cx.count("c11_paused_matrix_cells");
            if out.ok() {
                cx.viol("C11.blocked", format!("hub {} executes while paused", label), a.label.clone());
            } else if cc.fingerprint() != base {
                cx.viol("C11.blocked", format!("hub {} rejected while paused but changed state", label), a.label.clone());
            }
        }
    }
    // paths that enter the hub through other contracts
    let mut entering: Vec<Action> = vec![];
    for tok in [BSEI, STSEI] {
        if o.tok_bal(tok, ALICE) > 0 {
            entering.push(unbond(ALICE, tok, 1));
            entering.push(convert(ALICE, tok, 1));
        }
    }
    for v in &o.registry {
        if c.delegation(HUB, v) > 0 && o.registry.len() > 1 {
            entering.push(remove_validator(OWNER, v));
        }
    }
    entering.push(exec("dispatcher.dispatch_rewards by hub".into(), HUB, DISP, json!({"dispatch_rewards":{}}), &[]));
    for a in entering {
        let mut cc = p.clone();
        let hub_store = cc.contracts.get(HUB).unwrap().1.clone();
        let out = apply(&mut cc, &a);
        cx.probe(1);
        cx.count("c11_paused_entering_paths");
        let touched_hub = out.fx().iter().any(|e| matches!(e, Fx::Exec { contract, .. } if contract == HUB));
        if (out.ok() && touched_hub) || cc.contracts.get(HUB).unwrap().1 != hub_store || cc.deleg != p.deleg || cc.bal(HUB, USEI) != p.bal(HUB, USEI) {
            cx.viol("C11.blocked", format!("{} reaches into the paused hub", crate::hubcore::action_class(&a)), a.label.clone());
        }
    }
    // update_params by a non-owner is refused; migrate is allowed and a no-op without legacy entries
    for s in [ALICE, REG, DISP] {
        let mut cc = p.clone();
        let out = apply(&mut cc, &exec(format!("paused: update_params by {}", s), s, HUB, pause_msg(json!(false)), &[]));
        cx.probe(1);
        if out.ok() || cc.fingerprint() != base {
            cx.viol("C11.unpause_auth", "somebody other than the owner unpaused the hub", s.to_string());
        }
    }
    {
        let mut cc = p.clone();
        let out = apply(&mut cc, &exec("paused: migrate_unbond_wait_list".into(), EVE, HUB, json!({"migrate_unbond_wait_list":{"limit":null}}), &[]));
        cx.probe(1);
        if !out.ok() || cc.fingerprint() != base {
            cx.viol("C11.migrate", "wait-list migration without legacy entries failed or changed state", out.err().to_string());
        }
    }
    // transparency of the cycle, for both ways of unpausing
    for (how, flag) in [("Some(false)", json!(false)), ("None", Value::Null)] {
        let mut u = p.clone();
        let out = apply(&mut u, &exec(format!("unpause {}", how), OWNER, HUB, pause_msg(flag), &[]));
        cx.probe(1);
        if !out.ok() {
            cx.viol("C11.unpause", "the owner can not unpause the hub", format!("{}: {}", how, out.err()));
            continue;
        }
        cx.count("c11_cycles_compared");
        if fp_modulo_pause_flag(&u) != fp_modulo_pause_flag(&c_funded) {
            cx.viol("C11.transparent", "a pause/unpause cycle altered the state", format!("unpause with paused: {}", how));
            continue;
        }
        // lock-step product: every action gives the same result and the same successor in both worlds
        // (run for one of the two unpause variants; the other one was just shown to be the same state)
        if how == "None" {
            continue;
        }
        for a in alphabet {
            let mut x = c_funded.clone();
            let mut y = u.clone();
            let ox = apply(&mut x, a);
            let oy = apply(&mut y, a);
            cx.probe(2);
            cx.count("c11_product_steps");
            if ox.res != oy.res || fp_modulo_pause_flag(&x) != fp_modulo_pause_flag(&y) {
                cx.viol("C11.transparent", format!("{} behaves differently after a pause/unpause cycle", crate::hubcore::action_class(a)), format!("{} (unpause with {}): {:?} vs {:?}", a.label, how, ox.res.as_ref().map(|f| f.len()).map_err(|e| e.clone()), oy.res.as_ref().map(|f| f.len()).map_err(|e| e.clone())));
            }
        }
    }
}

// =============================================================================================
// legacy wait-list rule

fn lp(x: &[u8]) -> Vec<u8> {
    let mut v = (x.len() as u16).to_be_bytes().to_vec();
    v.extend_from_slice(x);
    v
}
fn old_key(addr: &str, batch: u64) -> Vec<u8> {
    let mut k = lp(b"wait");
    k.extend(lp(serde_json::to_vec(&addr).unwrap().as_slice()));
    k.extend(serde_json::to_vec(&batch).unwrap());
    k
}
fn old_entries(c: &Chain) -> usize {
    let p = lp(b"wait");
    c.contracts.get(HUB).unwrap().1 .0.keys().filter(|k| k.starts_with(&p)).count()
}

#[derive(Clone)]
pub struct Legacy {
    pub entries: Vec<usize>,
    /// also seed states in which the users of the legacy entries filed new-format requests in the same batch before
    /// the owner paused (after a code upgrade the hub is live until the owner pauses it)
    pub with_v2: bool,
}

impl Scenario for Legacy {
    type G = ();
    type O = ();
    fn name(&self) -> String {
        "pause/legacy-wait-list".into()
    }
    fn seeds(&self) -> Vec<(String, Chain, ())> {
        let mut out = vec![];
        for n in &self.entries {
            // as in the repository's own test_pause: legacy entries come from the previous code version,
            // so they are written to storage directly; then the owner pauses
            let mut c = deploy(&Cfg::default());
            run_prefix(&mut c, &[bond(ALICE, 1000), bond_st(BOB, 500)]);
            let list = [(ALICE, 1u64, 42u128), (BOB, 1, 7), (ALICE, 2, 5)];
            for (a, b, amt) in list.iter().take(*n) {
                let st = &mut c.contracts.get_mut(HUB).unwrap().1;
                st.0.insert(old_key(a, *b), serde_json::to_vec(&amt.to_string()).unwrap());
            }
            if self.with_v2 && *n > 0 {
                let mut c2 = c.clone();
                run_prefix(&mut c2, &[unbond(ALICE, BSEI, 10), unbond(BOB, STSEI, 5), exec("pause".into(), OWNER, HUB, pause_msg(json!(true)), &[])]);
                out.push((format!("{} legacy entries next to new requests of the same users, paused", n), c2, ()));
            }
            run_prefix(&mut c, &[exec("pause".into(), OWNER, HUB, pause_msg(json!(true)), &[])]);
            out.push((format!("{} legacy entries, paused", n), c, ()));
        }
        out
    }
    fn feed_ghost(&self, _g: &(), _h: &mut Sha256) {
        let _ = Sha256::new();
    }
    fn observe(&self, _c: &Chain) {}
    fn actions(&self, _c: &Chain, _o: &(), _g: &()) -> Vec<Action> {
        let mut v = vec![
            exec("unpause Some(false)".into(), OWNER, HUB, pause_msg(json!(false)), &[]),
            exec("unpause None".into(), OWNER, HUB, pause_msg(Value::Null), &[]),
            exec("pause".into(), OWNER, HUB, pause_msg(json!(true)), &[]),
            bond(ALICE, 10),
        ];
        for (l, lim) in [("None", Value::Null), ("1", json!(1)), ("2", json!(2))] {
            v.push(exec(format!("migrate_unbond_wait_list(limit {})", l), EVE, HUB, json!({"migrate_unbond_wait_list":{"limit":lim}}), &[]));
        }
        v
    }
    fn step(&self, pre: &Chain, _po: &(), _g: &(), a: &Action, out: &Outcome, post: &Chain, _qo: &(), cx: &mut Cx) {
        let left = old_entries(pre);
        let paused = |c: &Chain| -> bool {
            let p: basset::hub::Parameters = c.query(HUB, &basset::hub::QueryMsg::Parameters {}).expect("params");
            p.paused.unwrap_or(false)
        };
        cx.validated();
        if a.label.starts_with("unpause") {
            cx.trigger("c11_legacy_unpause_attempts");
            if left > 0 && (out.ok() || pre.fingerprint() != post.fingerprint()) {
                cx.viol("C11.legacy", "hub unpaused while legacy wait-list entries remain", format!("{} with {} entries", a.label, left));
            }
            if left == 0 && !out.ok() {
                cx.viol("C11.legacy", "hub can not be unpaused although no legacy entries remain", out.err().to_string());
            }
        }
        if a.label.starts_with("migrate") {
            cx.trigger("c11_legacy_migrations");
            if paused(pre) {
                if !out.ok() {
                    cx.viol("C11.legacy", "wait-list migration fails while paused", out.err().to_string());
                } else {
                    let lim = match &a.op {
                        Op::Exec { msg, .. } => msg["migrate_unbond_wait_list"]["limit"].as_u64().map(|x| x as usize).unwrap_or(usize::MAX),
                        _ => usize::MAX,
                    };
                    let moved = left.min(lim);
                    if old_entries(post) != left - moved {
                        cx.viol("C11.legacy", "migration did not move exactly min(limit, remaining) entries", format!("{}: {} -> {}", a.label, left, old_entries(post)));
                    }
                    // migrated claims are visible to their owners
                    // legacy entries are bSei claims: whatever left the old list must show up, amount for amount,
                    // as bSei claims of the same users, and no stSei claim may appear
                    let old_sum = |c: &Chain| -> u128 {
                        let p = lp(b"wait");
                        c.contracts.get(HUB).unwrap().1 .0.iter().filter(|(k, _)| k.starts_with(&p)).map(|(_, v)| serde_json::from_slice::<String>(v).ok().and_then(|s| s.parse::<u128>().ok()).unwrap_or(0)).sum()
                    };
                    let b_total = |c: &Chain| -> u128 { [ALICE, BOB].iter().map(|u| hub_requests(c, u).iter().map(|r| r.1).sum::<u128>()).sum() };
                    let st_total = |c: &Chain| -> u128 { [ALICE, BOB].iter().map(|u| hub_requests(c, u).iter().map(|r| r.2).sum::<u128>()).sum() };
                    let moved_amount = old_sum(pre) - old_sum(post);
                    if b_total(post) != b_total(pre) + moved_amount || st_total(post) != st_total(pre) {
                        cx.viol("C11.legacy", "migrated entries do not show up as the same bSei claims in UnbondRequests", format!("{}: legacy amount moved {} bSei claims {} -> {} stSei claims {} -> {}", a.label, moved_amount, b_total(pre), b_total(post), st_total(pre), st_total(post)));
                    }
                }
            } else if out.ok() {
                cx.viol("C11.legacy", "wait-list migration accepted while the hub is not paused", a.label.clone());
            }
        }
        if a.is(HUB, "bond") {
            cx.count("c11_legacy_bond_attempts");
            if paused(pre) && out.ok() {
                cx.viol("C11.blocked", "hub bond executes while paused", a.label.clone());
            }
        }
    }
    fn state(&self, c: &Chain, _o: &(), _g: &(), cx: &mut Cx) {
        // however it came about: the hub is never live while legacy wait-list entries remain
        let p: basset::hub::Parameters = c.query(HUB, &basset::hub::QueryMsg::Parameters {}).expect("params");
        let left = old_entries(c);
        if left > 0 {
            cx.trigger("c11_legacy_states_with_entries");
            if !p.paused.unwrap_or(false) {
                cx.viol("C11.legacy", "hub is not paused although legacy wait-list entries remain", format!("{} entries left", left));
            }
        }
    }
}
