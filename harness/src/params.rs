//! C20 (and the configuration part of C17): parameter / configuration update sequences.
use crate::actions::*;
use crate::chain::*;
use crate::deploy::*;
use crate::explore::*;
use cosmwasm_std::Decimal;
use serde_json::{json, Map, Value};
use sha2::Sha256;

#[derive(Clone, Copy, PartialEq, Eq, Debug)]
pub enum Which {
    Hub,
    Dispatcher,
    Others,
}

#[derive(Clone)]
pub struct Params {
    pub which: Which,
    pub label: String,
}

impl Params {
    pub fn hub() -> Params {
        Params { which: Which::Hub, label: "hub".into() }
    }
    pub fn dispatcher() -> Params {
        Params { which: Which::Dispatcher, label: "dispatcher".into() }
    }
    pub fn others() -> Params {
        Params { which: Which::Others, label: "reward-registry".into() }
    }
    pub fn for_c17() -> Params {
        Params { which: Which::Dispatcher, label: "dispatcher-c17".into() }
    }
}

pub struct PObs {
    pub hub_params: Value,
    pub hub_config: Value,
    pub disp_config: Value,
    pub reward_config: Value,
    pub reg_config: Value,
}

fn one() -> Decimal {
    Decimal::one()
}

/// all subsets of optional fields, each present field taking each of its candidate values
fn combos(fields: &[(&str, Vec<Value>)]) -> Vec<Map<String, Value>> {
    let mut out: Vec<Map<String, Value>> = vec![Map::new()];
    for (name, vals) in fields {
        let mut next = vec![];
        for m in &out {
            let mut absent = m.clone();
            absent.insert(name.to_string(), Value::Null);
            next.push(absent);
            for v in vals {
                let mut p = m.clone();
                p.insert(name.to_string(), v.clone());
                next.push(p);
            }
        }
        out = next;
    }
    out
}

fn compact(m: &Map<String, Value>) -> String {
    let parts: Vec<String> = m.iter().filter(|(_, v)| !v.is_null()).map(|(k, v)| format!("{}={}", k, v.to_string().replace('"', ""))).collect();
    if parts.is_empty() {
        "-".into()
    } else {
        parts.join(",")
    }
}

impl Scenario for Params {
    type G = ();
    type O = PObs;
    fn name(&self) -> String {
        format!("params/{}", self.label)
    }
    fn seeds(&self) -> Vec<(String, Chain, ())> {
        let mut out = vec![];
        match self.which {
            Which::Hub => {
                // every instantiate message over the value sets: out-of-range ones must be rejected or clamped
                for fee in ["0", "0.5", "1", "1.000000000000000001", "2"] {
                    for thr in ["0.9", "1", "1.000000000000000001", "2"] {
                        let mut c = deploy(&Cfg::default());
                        let r = c.instantiate(
                            Kind::Hub,
                            "hub2",
                            OWNER,
                            &json!({"epoch_period":10,"underlying_coin_denom":USEI,"unbonding_period":30,"peg_recovery_fee":fee,"er_threshold":thr,"reward_denom":KUSD,"update_reward_index_addr":UPDATER}),
                        );
                        if r.is_ok() {
                            // continue the exploration on the freshly instantiated hub: swap it in under the canonical address
                            let (k, st) = c.contracts.remove("hub2").unwrap();
                            let mut c2 = c.clone();
                            c2.contracts.insert(HUB.into(), (k, st));
                            c2.tx(OWNER, HUB, &json!({"update_config":{"rewards_dispatcher_contract":DISP,"validators_registry_contract":REG,"bsei_token_contract":BSEI,"stsei_token_contract":STSEI,"airdrop_registry_contract":AIRDROP,"rewards_contract":REWARD,"update_reward_index_addr":null}}), &[]).unwrap();
                            out.push((format!("instantiate fee={} thr={}", fee, thr), c2, ()));
                        } else {
                            out.push((format!("instantiate fee={} thr={} (rejected)", fee, thr), deploy(&Cfg::default()), ()));
                        }
                    }
                }
            }
            Which::Dispatcher => {
                for rate in ["0", "0.05", "1", "1.000000000000000001", "2"] {
                    let mut c = deploy(&Cfg::default());
                    let r = c.instantiate(
                        Kind::Dispatcher,
                        "dispatcher2",
                        OWNER,
                        &json!({"hub_contract":HUB,"bsei_reward_contract":REWARD,"stsei_reward_denom":USEI,"bsei_reward_denom":KUSD,"krp_keeper_address":KEEPER,"krp_keeper_rate":rate,"swap_contract":SWAP,"swap_denoms":[USEI,KUSD],"oracle_contract":ORACLE}),
                    );
                    if r.is_ok() {
                        let (k, st) = c.contracts.remove("dispatcher2").unwrap();
                        c.contracts.insert(DISP.into(), (k, st));
                        out.push((format!("instantiate keeper_rate={}", rate), c, ()));
                    } else {
                        out.push((format!("instantiate keeper_rate={} (rejected)", rate), deploy(&Cfg::default()), ()));
                    }
                }
            }
            Which::Others => out.push(("deployment".into(), deploy(&Cfg::default()), ())),
        }
        out
    }
    fn feed_ghost(&self, _g: &(), _h: &mut Sha256) {}
    fn observe(&self, c: &Chain) -> PObs {
        let reward_cfg = basset_sei_reward::state::read_config(&c.contracts.get(REWARD).unwrap().1).expect("reward config");
        PObs {
            hub_params: c.query_value(HUB, &json!({"parameters":{}})).expect("hub params"),
            hub_config: c.query_value(HUB, &json!({"config":{}})).expect("hub config"),
            disp_config: c.query_value(DISP, &json!({"config":{}})).expect("dispatcher config"),
            reward_config: json!({"hub_contract": reward_cfg.hub_contract.to_string(), "reward_denom": reward_cfg.reward_denom, "swap_contract": reward_cfg.swap_contract.to_string(), "swap_denoms": reward_cfg.swap_denoms, "owner": reward_cfg.owner.to_string()}),
            reg_config: c.query_value(REG, &json!({"config":{}})).expect("registry config"),
        }
    }
    fn actions(&self, _c: &Chain, _o: &PObs, _g: &()) -> Vec<Action> {
        let mut v = vec![];
        match self.which {
            Which::Hub => {
                let fields: Vec<(&str, Vec<Value>)> = vec![
                    ("epoch_period", vec![json!(5)]),
                    ("unbonding_period", vec![json!(7)]),
                    ("peg_recovery_fee", vec![json!("0.5"), json!("1"), json!("1.000000000000000001"), json!("2")]),
                    ("er_threshold", vec![json!("0.9"), json!("1"), json!("1.000000000000000001"), json!("2")]),
                    ("reward_denom", vec![json!("ukrw")]),
                    ("paused", vec![json!(true), json!(false)]),
                ];
                for m in combos(&fields) {
                    v.push(exec(format!("hub.update_params({})", compact(&m)), OWNER, HUB, json!({ "update_params": m }), &[]));
                }
                let cfields: Vec<(&str, Vec<Value>)> = vec![
                    ("rewards_dispatcher_contract", vec![json!("dispatcher2")]),
                    ("validators_registry_contract", vec![json!("registry2")]),
                    ("bsei_token_contract", vec![json!("bsei2")]),
                    ("stsei_token_contract", vec![json!("stsei2")]),
                    ("airdrop_registry_contract", vec![json!("airdrop2")]),
                    ("rewards_contract", vec![json!("reward2")]),
                    ("update_reward_index_addr", vec![json!("updater2")]),
                ];
                for m in combos(&cfields) {
                    v.push(exec(format!("hub.update_config({})", compact(&m)), OWNER, HUB, json!({ "update_config": m }), &[]));
                }
                v.push(exec("hub.update_params(by eve: peg_recovery_fee=0.5)".into(), EVE, HUB, json!({"update_params":{"epoch_period":null,"unbonding_period":null,"peg_recovery_fee":"0.5","er_threshold":null,"reward_denom":null,"paused":null}}), &[]));
                v.push(exec("hub.update_config(by eve: rewards_contract=reward2)".into(), EVE, HUB, json!({"update_config":{"rewards_dispatcher_contract":null,"validators_registry_contract":null,"bsei_token_contract":null,"stsei_token_contract":null,"airdrop_registry_contract":null,"rewards_contract":"reward2","update_reward_index_addr":null}}), &[]));
            }
            Which::Dispatcher => {
                let fields: Vec<(&str, Vec<Value>)> = vec![
                    ("hub_contract", vec![json!("hub2")]),
                    ("bsei_reward_contract", vec![json!("reward2")]),
                    ("stsei_reward_denom", vec![json!(USEI), json!("ukrw")]),
                    ("bsei_reward_denom", vec![json!("ukrw")]),
                    ("krp_keeper_address", vec![json!("keeper2")]),
                    ("krp_keeper_rate", vec![json!("0.3"), json!("1"), json!("1.000000000000000001"), json!("2")]),
                ];
                for m in combos(&fields) {
                    v.push(exec(format!("dispatcher.update_config({})", compact(&m)), OWNER, DISP, json!({ "update_config": m }), &[]));
                }
                for d in [USEI, "ukrw"] {
                    for add in [true, false] {
                        v.push(exec(format!("dispatcher.update_swap_denom({},{})", d, add), OWNER, DISP, json!({"update_swap_denom":{"swap_denom":d,"is_add":add}}), &[]));
                    }
                }
                v.push(exec("dispatcher.update_swap_contract(swap2)".into(), OWNER, DISP, json!({"update_swap_contract":{"swap_contract":"swap2"}}), &[]));
                v.push(exec("dispatcher.update_oracle_contract(oracle2)".into(), OWNER, DISP, json!({"update_oracle_contract":{"oracle_contract":"oracle2"}}), &[]));
                v.push(exec("dispatcher.update_config(by eve: krp_keeper_rate=0.3)".into(), EVE, DISP, json!({"update_config":{"hub_contract":null,"bsei_reward_contract":null,"stsei_reward_denom":null,"bsei_reward_denom":null,"krp_keeper_address":null,"krp_keeper_rate":"0.3"}}), &[]));
                v.push(exec("dispatcher.update_swap_denom(by eve)".into(), EVE, DISP, json!({"update_swap_denom":{"swap_denom":"ukrw","is_add":true}}), &[]));
            }
            Which::Others => {
                let fields: Vec<(&str, Vec<Value>)> = vec![("hub_contract", vec![json!("hub2")]), ("reward_denom", vec![json!("ukrw")]), ("swap_contract", vec![json!("swap2")])];
                for m in combos(&fields) {
                    v.push(exec(format!("reward.update_config({})", compact(&m)), OWNER, REWARD, json!({ "update_config": m }), &[]));
                }
                for d in [USEI, "ukrw"] {
                    for add in [true, false] {
                        v.push(exec(format!("reward.update_swap_denom({},{})", d, add), OWNER, REWARD, json!({"update_swap_denom":{"swap_denom":d,"is_add":add}}), &[]));
                    }
                }
                v.push(exec("registry.update_config(hub2)".into(), OWNER, REG, json!({"update_config":{"hub_contract":"hub2"}}), &[]));
                v.push(exec("registry.update_config(-)".into(), OWNER, REG, json!({"update_config":{"hub_contract":null}}), &[]));
                v.push(exec("reward.update_config(by eve)".into(), EVE, REWARD, json!({"update_config":{"hub_contract":"hub2","reward_denom":null,"swap_contract":null}}), &[]));
                v.push(exec("registry.update_config(by eve)".into(), EVE, REG, json!({"update_config":{"hub_contract":"hub2"}}), &[]));
            }
        }
        v
    }
    fn step(&self, pre: &Chain, po: &PObs, _g: &(), a: &Action, out: &Outcome, post: &Chain, qo: &PObs, cx: &mut Cx) {
        let (sender, contract, msg) = a.exec_parts().unwrap();
        let (key, body) = msg.as_object().and_then(|o| o.iter().next()).map(|(k, v)| (k.clone(), v.clone())).unwrap();
        cx.validated();
        if !out.ok() {
            cx.trigger("c20_rejected_update");
            if pre.fingerprint() != post.fingerprint() {
                cx.viol("C20.rejected_changes_nothing", format!("rejected {}.{} changed the chain state", contract, key), a.label.clone());
            }
            return;
        }
        if sender != OWNER {
            cx.viol("C20.unauthorised_update", format!("{}.{} accepted from a non-owner", contract, key), a.label.clone());
            return;
        }
        cx.trigger("c20_accepted_update");
        // (observed config before, after, field map message-field -> config-field, exceptions)
        let (before, after): (&Value, &Value) = match (contract, key.as_str()) {
            (HUB, "update_params") => (&po.hub_params, &qo.hub_params),
            (HUB, "update_config") => (&po.hub_config, &qo.hub_config),
            (DISP, _) => (&po.disp_config, &qo.disp_config),
            (REWARD, _) => (&po.reward_config, &qo.reward_config),
            (REG, _) => (&po.reg_config, &qo.reg_config),
            _ => return,
        };
        let map_field = |f: &str| -> String {
            match (contract, key.as_str(), f) {
                (HUB, "update_config", "rewards_dispatcher_contract") => "reward_dispatcher_contract".into(),
                (DISP, "update_swap_contract", _) => "swap_contract".into(),
                (DISP, "update_oracle_contract", _) => "oracle_contract".into(),
                _ => f.to_string(),
            }
        };
        if key == "update_swap_denom" {
            let d = body["swap_denom"].as_str().unwrap_or("").to_string();
            let add = body["is_add"].as_bool().unwrap_or(false);
            let b: Vec<String> = before["swap_denoms"].as_array().cloned().unwrap_or_default().iter().map(|x| x.as_str().unwrap_or("").to_string()).collect();
            let af: Vec<String> = after["swap_denoms"].as_array().cloned().unwrap_or_default().iter().map(|x| x.as_str().unwrap_or("").to_string()).collect();
            let exp: Vec<String> = if add {
                let mut e = b.clone();
                e.push(d.clone());
                e
            } else {
                b.iter().filter(|x| **x != d).cloned().collect()
            };
            if af != exp {
                cx.viol("C20.present_field", format!("{}.update_swap_denom did not add/remove exactly the denom", contract), format!("{}: {:?} -> {:?}", a.label, b, af));
            }
            for (k, v) in before.as_object().unwrap() {
                if k != "swap_denoms" && after.get(k) != Some(v) {
                    cx.viol("C20.absent_field", format!("{}.update_swap_denom changed {}", contract, k), a.label.clone());
                }
            }
            return;
        }
        let body = body.as_object().cloned().unwrap_or_default();
        let mut touched: Vec<String> = vec![];
        for (f, v) in &body {
            let cf = map_field(f);
            if v.is_null() {
                continue;
            }
            touched.push(cf.clone());
            if before.get(&cf).is_none() {
                // not reported by the query (hub rewards_contract): nothing public to compare
                continue;
            }
            let mut exp = v.clone();
            if contract == HUB && f == "er_threshold" {
                let d: Decimal = v.as_str().unwrap().parse().unwrap();
                exp = json!(d.min(one()).to_string());
            }
            if f == "peg_recovery_fee" || f == "krp_keeper_rate" {
                let d: Decimal = v.as_str().unwrap().parse().unwrap();
                exp = json!(d.to_string());
            }
            if contract == REG || contract == REWARD {
                // canonical addresses are stored; compare through the same canonicalisation
                if f == "hub_contract" || f == "swap_contract" {
                    use cosmwasm_std::Api;
                    let api = cosmwasm_std::testing::MockApi::default();
                    let can = api.addr_canonicalize(v.as_str().unwrap()).unwrap();
                    exp = if contract == REWARD { json!(can.to_string()) } else { serde_json::to_value(&can).unwrap() };
                }
            }
            if after.get(&cf) != Some(&exp) {
                cx.viol("C20.present_field", format!("{}.{} field {} did not take the sent value", contract, key, f), format!("{}: stored {:?} expected {}", a.label, after.get(&cf), exp));
            }
        }
        if contract == HUB && key == "update_params" {
            touched.push("paused".into());
            // the hub defines the pause flag as cleared when omitted
            let sent = body.get("paused").cloned().unwrap_or(Value::Null);
            let stored = after.get("paused").cloned().unwrap_or(Value::Null);
            let as_bool = |x: &Value| x.as_bool().unwrap_or(false);
            if as_bool(&sent) != as_bool(&stored) {
                cx.viol("C20.present_field", "hub.update_params pause flag differs from the sent value".to_string(), format!("{}: stored {}", a.label, stored));
            }
        }
        if contract == HUB && key == "update_config" && touched.iter().any(|t| t == "bsei_token_contract") {
            touched.push("token_contract".into()); // deprecated alias of the same value
        }
        for (k, v) in before.as_object().unwrap() {
            if !touched.contains(k) && after.get(k) != Some(v) {
                cx.viol("C20.absent_field", format!("{}.{} changed the omitted field {}", contract, key, k), format!("{}: {} -> {:?}", a.label, v, after.get(k)));
            }
        }
        // nothing outside the addressed contract moves
        for (name, b, af) in [("hub_params", &po.hub_params, &qo.hub_params), ("hub_config", &po.hub_config, &qo.hub_config), ("disp_config", &po.disp_config, &qo.disp_config), ("reward_config", &po.reward_config, &qo.reward_config), ("reg_config", &po.reg_config, &qo.reg_config)] {
            let own = match (contract, key.as_str()) {
                (HUB, "update_params") => name == "hub_params",
                (HUB, _) => name == "hub_config",
                (DISP, _) => name == "disp_config",
                (REWARD, _) => name == "reward_config",
                (REG, _) => name == "reg_config",
                _ => false,
            };
            if !own && b != af {
                cx.viol("C20.absent_field", format!("{}.{} changed another configuration ({})", contract, key, name), a.label.clone());
            }
        }
    }
    fn state(&self, _c: &Chain, o: &PObs, _g: &(), cx: &mut Cx) {
        let d = |v: &Value| -> Decimal { v.as_str().unwrap_or("0").parse().unwrap_or(Decimal::MAX) };
        cx.count("c20_states_checked");
        if self.which == Which::Dispatcher {
            cx.count("c20_dispatcher_rate_checked");
        }
        if d(&o.hub_params["peg_recovery_fee"]) > one() {
            cx.viol("C20.range", "hub peg_recovery_fee above 1", o.hub_params.to_string());
        }
        if d(&o.hub_params["er_threshold"]) > one() {
            cx.viol("C20.range", "hub er_threshold above 1", o.hub_params.to_string());
        }
        if d(&o.disp_config["krp_keeper_rate"]) > one() {
            cx.viol("C20.range", "dispatcher krp_keeper_rate above 1", o.disp_config.to_string());
        }
        if o.hub_params["underlying_coin_denom"] != json!(USEI) {
            cx.viol("C20.fixed_denom", "hub underlying_coin_denom changed", o.hub_params.to_string());
        }
        if o.disp_config["stsei_reward_denom"] != json!(USEI) {
            cx.viol("C20.fixed_denom", "dispatcher stsei_reward_denom changed", o.disp_config.to_string());
        }
    }
}
