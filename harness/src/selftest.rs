//! `krpmc selftest`: checks of the machinery itself — chain-model rules, determinism of the
//! explorer (counts independent of expansion order and thread count), and a cross-check of the
//! explorer's state count against an independent engine (stateright's BFS).
use crate::actions::*;
use crate::chain::*;
use crate::deploy::*;
use crate::explore::*;
use crate::hubcore::HubCore;
use crate::obs::*;
use serde_json::json;
use stateright::{Checker, Model};

fn check(name: &str, ok: bool, fails: &mut u32) {
    if ok {
        println!("  ok    {}", name);
    } else {
        println!("  FAIL  {}", name);
        *fails += 1;
    }
}

fn chain_rules(fails: &mut u32) {
    println!("chain model rules");
    let mut c = deploy(&Cfg::default());
    // bank
    let r = c.tx_bank_send(ALICE, BOB, &[(USEI.to_string(), 0)]);
    check("bank rejects a zero-amount coin", r.is_err(), fails);
    let r = c.tx_bank_send(EVE, BOB, &[(USEI.to_string(), 5)]);
    check("bank rejects insufficient funds", r.is_err(), fails);
    let before = c.fingerprint();
    let r = c.tx(ALICE, HUB, &json!({"bond":{}}), &[(KUSD.to_string(), 5)]);
    check("failed transaction rolls back attached funds and storage", r.is_err() && c.fingerprint() == before, fails);
    // bond: delegated in full, minted 1:1, hub balance untouched (repository test proper_bond)
    let r = c.tx(ALICE, HUB, &json!({"bond":{}}), &[(USEI.to_string(), 1000)]);
    check("proper_bond: bond 1000 succeeds", r.is_ok(), fails);
    check("proper_bond: 1000 bSei minted to the bonder", token_bal(&c, BSEI, ALICE) == 1000 && token_supply(&c, BSEI) == 1000, fails);
    check("proper_bond: 1000 delegated over the registered validators, nothing left liquid", c.total_delegated(HUB) == 1000 && c.bal(HUB, USEI) == 0 && c.delegation(HUB, "val1") == 500 && c.delegation(HUB, "val2") == 500, fails);
    let st = hub_state(&c);
    check("proper_bond: State reports total_bond_bsei 1000, rate 1", st.total_bond_bsei_amount.u128() == 1000 && st.bsei_exchange_rate == cosmwasm_std::Decimal::one(), fails);
    // unbond inside the epoch: no undelegation; after the epoch: undelegation + history (proper_unbond)
    let r = apply(&mut c, &unbond(ALICE, BSEI, 100));
    check("proper_unbond: unbond within the epoch burns and records, no undelegation", r.ok() && c.unbonding.is_empty() && token_supply(&c, BSEI) == 900, fails);
    c.advance(11);
    let r = apply(&mut c, &unbond(ALICE, BSEI, 1));
    check("proper_unbond: first unbond after the epoch undelegates the whole batch (101)", r.ok() && c.unbonding.iter().map(|u| u.balance).sum::<u128>() == 101, fails);
    check("undelegation completes exactly unbonding_time later", c.unbonding.iter().all(|u| u.completion == c.time + 30), fails);
    c.advance(29);
    check("no maturity one second early", c.bal(HUB, USEI) == 0, fails);
    let r = apply(&mut c, &withdraw(ALICE));
    check("proper_withdraw_unbonded: withdraw before maturity is refused", !r.ok(), fails);
    c.advance(1);
    check("maturity at begin-block of the completion second", c.bal(HUB, USEI) == 101 && c.unbonding.is_empty(), fails);
    let bal0 = c.bal(ALICE, USEI);
    let r = apply(&mut c, &withdraw(ALICE));
    check("proper_withdraw_unbonded: 101 paid", r.ok() && c.bal(ALICE, USEI) - bal0 == 101, fails);
    // slashing arithmetic (proper_slashing): 10% of one validator
    let d1 = c.delegation(HUB, "val1");
    let burned = c.slash_bonded("val1", 1, 10);
    check("slash_bonded: surviving = floor(d * 9/10)", c.delegation(HUB, "val1") == d1 * 9 / 10 && burned == d1 - d1 * 9 / 10, fails);
    let r = apply(&mut c, &check_slashing(CAROL));
    let st = hub_state(&c);
    check("proper_slashing: CheckSlashing books the surviving delegation", r.ok() && st.total_bond_bsei_amount.u128() == c.total_delegated(HUB), fails);
    // distribution: rewards go to the withdraw address (the dispatcher), also on auto-withdraw
    c.accrue(HUB, "val2", USEI, 1000);
    let hub0 = c.bal(HUB, USEI);
    let r = apply(&mut c, &bond_st(BOB, 50));
    check("staking hook auto-withdraws pending rewards to the withdraw address, not to the hub", r.ok() && c.bal(HUB, USEI) == hub0 && c.bal(DISP, USEI) == 1000, fails);
    // redelegation marks the destination
    let mut c2 = deploy(&Cfg { registered: vec!["val1", "val2", "val3"], ..Cfg::default() });
    run_prefix(&mut c2, &[bond(ALICE, 900)]);
    let r = apply(&mut c2, &remove_validator(OWNER, "val1"));
    check("remove_validator redelegates the whole stake", r.ok() && c2.delegation(HUB, "val1") == 0 && c2.total_delegated(HUB) == 900, fails);
    check("destination of a redelegation can not be redelegated from until the unbonding time passed", c2.can_redelegate(HUB, "val2") == 0 && c2.can_redelegate(HUB, "val3") == 0, fails);
    // dispatch order: depth-first (bSei send: reward mirror first, then the hub hook)
    let mut c3 = deploy(&Cfg::default());
    run_prefix(&mut c3, &[bond(ALICE, 100)]);
    let o = apply(&mut c3, &unbond(ALICE, BSEI, 10));
    let order: Vec<String> = o.fx().iter().filter_map(|e| if let Fx::Exec { contract, msg, .. } = e { Some(format!("{}.{}", contract, msg.as_object().and_then(|m| m.keys().next().cloned()).unwrap_or_default())) } else { None }).collect();
    check(
        "depth-first dispatch order of a bSei Send->Unbond",
        order == vec!["bsei.send", "reward.decrease_balance", "reward.increase_balance", "hub.receive", "bsei.burn", "reward.decrease_balance"],
        fails,
    );
    // test_dispatch_rewards-like amounts on the real path: 1000 usei rewards at 5% keeper, equal pools
    let mut c4 = deploy(&Cfg::default());
    run_prefix(&mut c4, &[bond(ALICE, 1000), bond_st(BOB, 1000), accrue("val1", USEI, 1000)]);
    let r = apply(&mut c4, &update_index(UPDATER));
    check("update_global_index: 1000 usei -> keeper 25 usei + 25 kusd, reward contract 475 kusd, 475 re-bonded, dispatcher empty", r.ok() && c4.bal(KEEPER, USEI) == 25 && c4.bal(KEEPER, KUSD) == 25 && c4.bal(REWARD, KUSD) == 475 && c4.total_delegated(HUB) == 2475 && c4.bal(DISP, USEI) == 0 && c4.bal(DISP, KUSD) == 0, fails);
}

fn small_scenario() -> HubCore {
    let mut h = HubCore::base("selftest");
    h.arm.c02 = true;
    h.arm.c03 = true;
    h.seeds = vec!["funded"];
    h.budget = 1;
    h
}

fn determinism(fails: &mut u32) {
    println!("explorer determinism");
    let sc = small_scenario();
    let lim = || Limits { max_depth: 3, max_secs: 600.0, max_states: 10_000_000 };
    let a = explore(&sc, &lim(), 0);
    let b = explore(&sc, &lim(), 7);
    let pool = rayon::ThreadPoolBuilder::new().num_threads(3).build().unwrap();
    let c = pool.install(|| explore(&sc, &lim(), 13));
    check(&format!("same states/transitions/digest for expansion orders 0 and 7 ({} states, {} transitions)", a.states, a.transitions), a.states == b.states && a.transitions == b.transitions && a.digest == b.digest, fails);
    check("same states/transitions/digest with 3 worker threads", a.states == c.states && a.transitions == c.transitions && a.digest == c.digest, fails);
    check("no violations on the unchanged tree in the self-test scenario", a.violations.is_empty() && b.violations.is_empty(), fails);
}

// ---- stateright cross-check -------------------------------------------------------------------
#[derive(Clone)]
struct SrState {
    c: Chain,
    g: crate::hubcore::G,
    fp: Fp,
    depth: usize,
}
impl PartialEq for SrState {
    fn eq(&self, o: &Self) -> bool {
        self.fp == o.fp
    }
}
impl Eq for SrState {}
impl std::hash::Hash for SrState {
    fn hash<H: std::hash::Hasher>(&self, h: &mut H) {
        self.fp.hash(h)
    }
}
impl std::fmt::Debug for SrState {
    fn fmt(&self, f: &mut std::fmt::Formatter) -> std::fmt::Result {
        write!(f, "state@{}", self.depth)
    }
}
struct SrModel {
    sc: HubCore,
    max_depth: usize,
}
impl Model for SrModel {
    type State = SrState;
    type Action = usize;
    fn init_states(&self) -> Vec<SrState> {
        self.sc.seeds().into_iter().map(|(_, c, g)| { let fp = state_fp(&self.sc, &c, &g); SrState { c, g, fp, depth: 0 } }).collect()
    }
    fn actions(&self, s: &SrState, out: &mut Vec<usize>) {
        if s.depth >= self.max_depth {
            return;
        }
        let o = self.sc.observe(&s.c);
        let n = self.sc.actions(&s.c, &o, &s.g).len();
        out.extend(0..n);
    }
    fn next_state(&self, s: &SrState, a: usize) -> Option<SrState> {
        let o = self.sc.observe(&s.c);
        let acts = self.sc.actions(&s.c, &o, &s.g);
        let act = &acts[a];
        let mut post = s.c.clone();
        let out = apply(&mut post, act);
        let po = self.sc.observe(&post);
        let mut cx = Cx::default();
        let g2 = self.sc.step(&s.c, &o, &s.g, act, &out, &post, &po, &mut cx);
        let fp = state_fp(&self.sc, &post, &g2);
        Some(SrState { c: post, g: g2, fp, depth: s.depth + 1 })
    }
    fn properties(&self) -> Vec<stateright::Property<Self>> {
        vec![stateright::Property::always("true", |_, _| true)]
    }
}

fn cross_check(fails: &mut u32) {
    println!("cross-check against stateright");
    let sc = small_scenario();
    let depth = 3;
    let mine = explore(&sc, &Limits { max_depth: depth, max_secs: 600.0, max_states: 10_000_000 }, 0);
    // stateright dedupes on the state hash; depth is not part of our fingerprint, so a state first
    // reached at depth d by BFS is expanded iff d < max_depth in both engines (single thread = true BFS order)
    let m = SrModel { sc, max_depth: depth };
    let checker = m.checker().threads(1).spawn_bfs().join();
    let theirs = checker.unique_state_count() as u64;
    check(&format!("unique states to depth {}: krpmc {} == stateright {}", depth, mine.states, theirs), mine.states == theirs, fails);
}

pub fn run() -> i32 {
    let mut fails = 0u32;
    chain_rules(&mut fails);
    determinism(&mut fails);
    cross_check(&mut fails);
    if let Some(m) = machinery_error() {
        println!("  FAIL  machinery error raised: {}", m);
        fails += 1;
    }
    println!("selftest: {} failures", fails);
    if fails == 0 {
        0
    } else {
        2
    }
}
