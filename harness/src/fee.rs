//! C05 — peg-recovery fee: bounded, charged only below the threshold, never over-collects past 1:1.
//! Start states: slashed deployments x (peg_fee, threshold) configurations; alphabet: the four
//! fee-charging paths with amounts from one unit to the whole pool.
use crate::actions::*;
use crate::chain::*;
use crate::deploy::*;
use crate::explore::*;
use crate::obs::*;
use sha2::Sha256;

#[derive(Clone)]
pub struct Fee {
    pub label: String,
    pub fees: Vec<&'static str>,
    pub thresholds: Vec<&'static str>,
    pub slashes: Vec<(u128, u128)>,
    pub scale: u128,
    pub users: Vec<&'static str>,
    pub rewarded: bool,
    /// additional bSei-only seeds (threshold, slash) where the rate lands exactly on the threshold
    pub exact: Vec<(&'static str, (u128, u128))>,
    /// the owner re-sends UpdateParams with only the epoch period set: the fee parameters must stay as configured
    pub with_param_update: bool,
}

impl Fee {
    pub fn base(label: &str) -> Fee {
        Fee { label: label.into(), fees: vec!["0", "0.005", "0.5", "1"], thresholds: vec!["0", "0.95", "1"], slashes: vec![(1, 10), (1, 100)], scale: 1, users: vec![ALICE, BOB], rewarded: false, exact: vec![], with_param_update: false }
    }
}

/// the deployment's configured fee parameters (what the owner put into the instantiate message): the oracle decides
/// "charged or not" and "how much at most" from these and from backing over claims, never from what the hub reports
#[derive(Clone, Debug)]
pub struct FeeCfg {
    pub peg: cosmwasm_std::Decimal,
    pub thr: cosmwasm_std::Decimal,
}
fn feecfg(f: &str, t: &str) -> FeeCfg {
    use std::str::FromStr;
    let one = cosmwasm_std::Decimal::one();
    FeeCfg { peg: cosmwasm_std::Decimal::from_str(f).unwrap(), thr: cosmwasm_std::Decimal::from_str(t).unwrap().min(one) }
}

impl Scenario for Fee {
    type G = FeeCfg;
    type O = HubObs;
    fn name(&self) -> String {
        format!("fee/{}", self.label)
    }
    fn seeds(&self) -> Vec<(String, Chain, FeeCfg)> {
        let mut out = vec![];
        for f in &self.fees {
            for t in &self.thresholds {
                for (n, d) in &self.slashes {
                    let cfg = Cfg { peg_fee: f, threshold: t, ..Cfg::default() };
                    let mut c = deploy(&cfg);
                    let k = self.scale;
                    let mut prefix = vec![bond(ALICE, 1000 * k), bond_st(ALICE, 400 * k), bond(BOB, 300 * k), bond_st(BOB, 1000 * k)];
                    if self.rewarded {
                        // stSei rate above 1 before the slash (re-bonded rewards)
                        prefix.push(accrue("val1", USEI, 2000 * k));
                        prefix.push(update_index(UPDATER));
                    }
                    prefix.push(slash_bonded("val1", *n, *d));
                    prefix.push(slash_bonded("val2", *n, *d));
                    run_prefix(&mut c, &prefix);
                    out.push((format!("fee={} thr={} slash={}/{}{}", f, t, n, d, if self.rewarded { " rewarded" } else { "" }), c, feecfg(f, t)));
                }
            }
        }
        for (t, (n, d)) in &self.exact {
            for f in &self.fees {
                // a bSei pool spread evenly over both validators: the slash puts the rate exactly on the threshold
                let cfg = Cfg { peg_fee: f, threshold: t, ..Cfg::default() };
                let mut c = deploy(&cfg);
                run_prefix(&mut c, &[bond(ALICE, 1000), bond(BOB, 1000), slash_bonded("val1", *n, *d), slash_bonded("val2", *n, *d), bond_st(BOB, 500)]);
                out.push((format!("exact: fee={} thr={} slash={}/{}", f, t, n, d), c, feecfg(f, t)));
            }
        }
        out
    }
    fn feed_ghost(&self, g: &FeeCfg, h: &mut Sha256) {
        use sha2::Digest;
        h.update(g.peg.to_string().as_bytes());
        h.update(b"|");
        h.update(g.thr.to_string().as_bytes());
    }
    fn observe(&self, c: &Chain) -> HubObs {
        HubObs::new(c)
    }
    fn actions(&self, _c: &Chain, o: &HubObs, _g: &FeeCfg) -> Vec<Action> {
        let mut v = vec![];
        let k = self.scale;
        for u in &self.users {
            for a in [1u128, 100 * k, 5000 * k] {
                v.push(bond(u, a));
            }
            let b = o.tok_bal(BSEI, u);
            let s = o.tok_bal(STSEI, u);
            let mut bs = vec![1, b / 2, b];
            bs.retain(|x| *x > 0);
            bs.dedup();
            for a in &bs {
                v.push(unbond(u, BSEI, *a));
                v.push(convert(u, BSEI, *a));
            }
            let mut ss = vec![1, s / 2, s];
            ss.retain(|x| *x > 0);
            ss.dedup();
            for a in &ss {
                v.push(convert(u, STSEI, *a));
            }
            // pending stSei requests sit next to the bSei ones in the open batch
            if s > 1 {
                v.push(unbond(u, STSEI, s / 2));
            }
        }
        if self.with_param_update {
            v.push(exec("update_params(epoch_period only)".into(), OWNER, HUB, serde_json::json!({"update_params":{"epoch_period":10,"unbonding_period":null,"peg_recovery_fee":null,"er_threshold":null,"reward_denom":null,"paused":null}}), &[]));
        }
        v
    }
    fn step(&self, _pre: &Chain, po: &HubObs, g: &FeeCfg, a: &Action, out: &Outcome, _post: &Chain, qo: &HubObs, cx: &mut Cx) -> FeeCfg {
        c05_step(po, g, a, out, qo, cx);
        g.clone()
    }
    fn state(&self, _c: &Chain, _o: &HubObs, _g: &FeeCfg, _cx: &mut Cx) {}
}

pub fn c05_step(po: &HubObs, g: &FeeCfg, a: &Action, out: &Outcome, qo: &HubObs, cx: &mut Cx) {
    if !out.ok() || out.is_env {
        return;
    }
    // the rates are backing over claims of the pre-state (C03's definition), the fee parameters are the configured ones
    let brate = po.bsei_rate_derived();
    let srate = po.stsei_rate_derived();
    let peg = g.peg;
    let thr = g.thr;
    let charged = brate < thr;
    if brate == thr && thr < cosmwasm_std::Decimal::one() {
        cx.count("c05_rate_exactly_on_threshold");
    }
    if srate > cosmwasm_std::Decimal::one() && charged {
        cx.count("c05_fee_with_stsei_rate_above_one");
    }
    let u = a.sender().to_string();
    let mut path = "";
    // (no-fee credit, observed credit, fee basis)
    let mut triple: Option<(u128, u128, u128)> = None;
    if a.is(HUB, "bond") {
        path = "bond";
        if let Some(nofee) = div_dec(a.funds_of(USEI), brate) {
            let minted = qo.tok_bal(BSEI, &u).saturating_sub(po.tok_bal(BSEI, &u));
            triple = Some((nofee, minted, nofee));
        }
    } else if let Some((hookname, amt, owner)) = a.hub_hook() {
        let tok = a.exec_parts().unwrap().1;
        if hookname == "unbond" && tok == BSEI {
            path = "unbond";
            // what the user was credited is read from its public claim list
            let id = po.batch.id;
            let before = po.requests.get(&u).and_then(|r| r.iter().find(|x| x.0 == id)).map(|x| x.1).unwrap_or(0);
            let after = qo.requests.get(&u).and_then(|r| r.iter().find(|x| x.0 == id)).map(|x| x.1).unwrap_or(0);
            let credited = after.saturating_sub(before);
            triple = Some((amt, credited, amt));
        } else if hookname == "convert" && tok == STSEI {
            path = "convert_st_b";
            if let Some(nofee) = div_dec(mul_dec(amt, srate), brate) {
                let minted = qo.tok_bal(BSEI, &owner).saturating_sub(po.tok_bal(BSEI, &owner));
                triple = Some((nofee, minted, nofee));
            }
        } else if hookname == "convert" && tok == BSEI {
            path = "convert_b_st";
            let minted = qo.tok_bal(STSEI, &owner).saturating_sub(po.tok_bal(STSEI, &owner));
            if let Some(nofee) = div_dec(mul_dec(amt, brate), srate) {
                cx.trigger("c05_fee_path_checked");
                cx.validated();
                if !charged {
                    cx.count("c05_no_fee_at_or_above_threshold");
                    if minted != nofee {
                        cx.viol("C05.no_fee_above_threshold", format!("fee charged at or above the threshold on {}", path), format!("{}: rate {} thr {} minted {} no-fee {}", a.label, brate, thr, minted, nofee));
                    }
                } else {
                    cx.count("c05_fee_charged_paths");
                    let maxfee = mul_dec(amt, peg).min(amt);
                    let lo = div_dec(mul_dec(amt - maxfee, brate), srate).unwrap_or(0);
                    if minted > nofee {
                        cx.viol("C05.negative_fee", format!("user received more than the no-fee amount on {}", path), format!("{}: minted {} no-fee {}", a.label, minted, nofee));
                    }
                    if minted < lo {
                        cx.viol("C05.fee_bound", format!("fee above amount x peg_recovery_fee on {}", path), format!("{}: minted {} lower bound {} (max fee {})", a.label, minted, lo, maxfee));
                    }
                }
            }
        }
    }
    if path.is_empty() {
        return;
    }
    if let Some((nofee, got, basis)) = triple {
        cx.trigger("c05_fee_path_checked");
        cx.validated();
        if !charged {
            cx.count("c05_no_fee_at_or_above_threshold");
            if got != nofee {
                cx.viol("C05.no_fee_above_threshold", format!("fee charged at or above the threshold on {}", path), format!("{}: rate {} thr {} credited {} no-fee {}", a.label, brate, thr, got, nofee));
            }
        } else {
            cx.count("c05_fee_charged_paths");
            if got > nofee {
                cx.viol("C05.negative_fee", format!("user received more than the no-fee amount on {}", path), format!("{}: credited {} no-fee {}", a.label, got, nofee));
            } else {
                let fee = nofee - got;
                if fee > 0 {
                    cx.count("c05_positive_fee");
                }
                if fee > mul_dec(basis, peg) {
                    cx.viol("C05.fee_bound", format!("fee above amount x peg_recovery_fee on {}", path), format!("{}: fee {} basis {} rate {}", a.label, fee, basis, peg));
                }
            }
        }
    }
    // never over-collect: an operation that starts below the peg does not leave backing above claims
    if brate < cosmwasm_std::Decimal::one() && po.delegated > 0 && po.books() > 0 {
        cx.trigger("c05_peg_overshoot_checked");
        let backing = qo.state.total_bond_bsei_amount.u128();
        let claims = qo.b_claims();
        if backing > claims + 2 {
            cx.viol(
                "C05.overshoot",
                format!("bSei backing above claims after {}", path),
                format!("{}: rate before {} fee {} thr {}; after: bond {} claims {} (supply {} pending {}) rate {}", a.label, brate, peg, thr, backing, claims, qo.bsei_supply, qo.batch.requested_bsei_with_fee, qo.state.bsei_exchange_rate),
            );
        }
    }
}
