//! Bounded-exhaustive input enumerations through the real entry points: C12 (registry planning
//! functions) and C17 (dispatcher swap split + dispatch).
use crate::actions::*;
use crate::chain::*;
use crate::deploy::*;
use crate::explore::{Report, Viol};
use crate::obs::*;
use crate::runner::Runnable;
use basset_sei_validators_registry::common::{calculate_delegations, calculate_undelegations};
use basset_sei_validators_registry::registry::ValidatorResponse;
use cosmwasm_std::{Decimal, Fraction, Uint128};
use rayon::prelude::*;
use serde_json::{json, Value};
use std::collections::BTreeMap;
use std::sync::atomic::{AtomicBool, AtomicU64, Ordering};
use std::sync::{Arc, Mutex};
use std::time::{Duration, Instant};

#[derive(Default)]
struct EAcc {
    evals: u64,
    nontrivial: u64,
    counters: BTreeMap<&'static str, u64>,
    viols: BTreeMap<(String, String), (Viol, Value, u64)>,
}
fn vkey(x: &Value) -> (usize, String) {
    let s = x.to_string();
    (s.len(), s)
}
impl EAcc {
    fn merge(mut self, o: EAcc) -> EAcc {
        self.evals += o.evals;
        self.nontrivial += o.nontrivial;
        for (k, v) in o.counters {
            *self.counters.entry(k).or_insert(0) += v;
        }
        for (k, (v, input, n)) in o.viols {
            match self.viols.get_mut(&k) {
                Some(e) => {
                    e.2 += n;
                    if vkey(&input) < vkey(&e.1) {
                        e.0 = v;
                        e.1 = input;
                    }
                }
                None => {
                    self.viols.insert(k, (v, input, n));
                }
            }
        }
        self
    }
    fn count(&mut self, k: &'static str) {
        *self.counters.entry(k).or_insert(0) += 1;
    }
    fn viol(&mut self, oracle: &str, sig: String, detail: String, input: Value) {
        let k = (oracle.to_string(), sig.clone());
        let v = Viol { oracle: oracle.into(), sig, detail };
        match self.viols.get_mut(&k) {
            Some(e) => {
                e.2 += 1;
                if vkey(&input) < vkey(&e.1) {
                    e.0 = v;
                    e.1 = input;
                }
            }
            None => {
                self.viols.insert(k, (v, input, 1));
            }
        }
    }
}

fn finish(name: String, acc: EAcc, inputs: u64, samples: Vec<Value>, t0: Instant) -> Report {
    let by = acc.viols;
    let violations = by
        .into_values()
        .map(|(v, input, count)| crate::explore::FoundViol { viol: v, seed: input.to_string(), actions: vec![], depth: 1, count })
        .collect();
    Report {
        scenario: name,
        states: inputs,
        transitions: acc.evals,
        nontrivial: acc.nontrivial,
        validated: acc.evals,
        probe_execs: 0,
        depth_completed: 1,
        depth_target: 1,
        exhaustive: true,
        cap_hit: None,
        counters: acc.counters.into_iter().map(|(k, v)| (k.to_string(), v)).collect(),
        layers: vec![(1, inputs, acc.evals)],
        violations,
        samples,
        wall_s: t0.elapsed().as_secs_f64(),
        digest: String::new(),
        seeds: vec![],
        alphabet_sample: vec![],
    }
}

// =============================================================================================
// C12

pub struct C12Enum {
    pub max_len: usize,
    pub max_val: u128,
}

fn vals(d: &[u128]) -> Vec<ValidatorResponse> {
    d.iter().enumerate().map(|(i, x)| ValidatorResponse { total_delegated: Uint128::new(*x), address: format!("v{}", i) }).collect()
}

pub fn c12_check_one(d: &[u128], amount: u128, acc: &mut EAcc, slot: Option<&Mutex<(String, Instant)>>) {
    let n = d.len() as u128;
    let sum: u128 = d.iter().sum();
    let input = || json!({"delegations": d.iter().map(|x| x.to_string()).collect::<Vec<_>>(), "amount": amount.to_string()});
    if let Some(s) = slot {
        *s.lock().unwrap() = (input().to_string(), Instant::now());
    }
    // ---- delegation plan
    acc.evals += 1;
    match calculate_delegations(Uint128::new(amount), &vals(d)) {
        Err(e) => {
            if n > 0 {
                acc.viol("C12.delegate", "delegation plan fails for a non-empty list".into(), e.to_string(), input());
            } else {
                acc.count("c12_empty_list");
            }
        }
        Ok((rem, plan)) => {
            if n == 0 {
                acc.viol("C12.delegate", "delegation plan accepted an empty list".into(), String::new(), input());
            } else {
                let total = sum + amount;
                let psum: u128 = plan.iter().map(|x| x.u128()).sum();
                let ceil_share = (total + n - 1) / n;
                if amount > 0 {
                    acc.nontrivial += 1;
                }
                if !rem.is_zero() || psum != amount || plan.len() != d.len() {
                    acc.viol("C12.delegate_conserve", "delegation plan does not distribute exactly the whole amount".into(), format!("remainder {} plan sum {} amount {}", rem, psum, amount), input());
                }
                for (i, p) in plan.iter().enumerate() {
                    let p = p.u128();
                    if p > 0 && d[i] * n > total {
                        acc.viol("C12.delegate_above_share", "validator above the even share received stake".into(), format!("index {} has {} got {} total {}", i, d[i], p, total), input());
                    }
                    if p > 0 && d[i] + p > ceil_share {
                        acc.viol("C12.delegate_lift", "validator lifted above the even share rounded up".into(), format!("index {} has {} got {} ceil share {}", i, d[i], p, ceil_share), input());
                    }
                }
                if d.iter().any(|x| *x == 0) {
                    acc.count("c12_lists_with_zero");
                }
                if d.windows(2).any(|w| w[0] > w[1]) && d.windows(2).any(|w| w[0] < w[1]) {
                    acc.count("c12_unsorted_lists");
                }
            }
        }
    }
    // ---- undelegation plan
    acc.evals += 1;
    match calculate_undelegations(Uint128::new(amount), vals(d)) {
        Err(e) => {
            if n > 0 && amount <= sum {
                acc.viol("C12.undelegate_fails", "undelegation plan fails although the request is within the total".into(), e.to_string(), input());
            } else {
                acc.count("c12_undelegate_rejected");
            }
        }
        Ok(plan) => {
            if n == 0 || amount > sum {
                acc.viol("C12.undelegate_accepts", "undelegation plan accepted an empty list or an excessive amount".into(), format!("plan {:?}", plan), input());
            } else {
                if amount > 0 {
                    acc.nontrivial += 1;
                }
                let psum: u128 = plan.iter().map(|x| x.u128()).sum();
                if psum != amount || plan.len() != d.len() {
                    acc.viol("C12.undelegate_conserve", "undelegation plan does not remove exactly the requested amount".into(), format!("plan sum {} amount {}", psum, amount), input());
                }
                let floor_share = (sum - amount) / n;
                for (i, p) in plan.iter().enumerate() {
                    let p = p.u128();
                    if p > d[i] {
                        acc.viol("C12.undelegate_overdraw", "more undelegated from a validator than it holds".into(), format!("index {} holds {} plan {}", i, d[i], p), input());
                    } else if d[i] - p < d[i].min(floor_share) {
                        acc.viol("C12.undelegate_below_share", "validator pushed below the even share rounded down".into(), format!("index {} holds {} plan {} floor share {}", i, d[i], p, floor_share), input());
                    }
                }
            }
        }
    }
}

fn lists(max_len: usize, max_val: u128) -> Vec<Vec<u128>> {
    let mut out: Vec<Vec<u128>> = vec![vec![]];
    let mut cur: Vec<Vec<u128>> = vec![vec![]];
    for _ in 0..max_len {
        let mut next = vec![];
        for l in &cur {
            for v in 0..=max_val {
                let mut x = l.clone();
                x.push(v);
                next.push(x);
            }
        }
        out.extend(next.iter().cloned());
        cur = next;
    }
    out
}

impl Runnable for C12Enum {
    fn name(&self) -> String {
        format!("enum/c12-len{}-val{}", self.max_len, self.max_val)
    }
    fn run(&self, _perm: u64) -> Report {
        let t0 = Instant::now();
        let ls = lists(self.max_len, self.max_val);
        // watchdog: a planning call that does not return within 30 s is reported as non-termination
        let slots: Arc<Vec<Mutex<(String, Instant)>>> = Arc::new((0..rayon::current_num_threads().max(1) + 1).map(|_| Mutex::new((String::new(), Instant::now()))).collect());
        let done = Arc::new(AtomicBool::new(false));
        let active = Arc::new(AtomicU64::new(0));
        let wd = {
            let slots = slots.clone();
            let done = done.clone();
            std::thread::spawn(move || {
                while !done.load(Ordering::Relaxed) {
                    std::thread::sleep(Duration::from_millis(200));
                    for s in slots.iter() {
                        let g = s.lock().unwrap();
                        if !g.0.is_empty() && g.1.elapsed() > Duration::from_secs(30) && !done.load(Ordering::Relaxed) {
                            let dir = crate::runner::verif_dir();
                            let f = format!("{}/replays/C12-nontermination.json", dir);
                            let _ = std::fs::create_dir_all(format!("{}/replays", dir));
                            let _ = std::fs::write(&f, json!({"property":"C12","scenario":"enum/c12","seed":g.0,"oracle":"C12.terminates","signature":"planning call does not terminate","actions":[]}).to_string());
                            println!("VIOLATION property=C12 replay={}", f);
                            std::process::exit(1);
                        }
                    }
                }
            })
        };
        let scalings: Vec<(u128, i128)> = vec![(1, 0), (1_000_003, 0), (1_000_000_000_007, 1), (1_000_000_000_000_000_000 / self.max_len as u128 / self.max_val.max(1), -1)];
        let _ = active;
        let acc = ls
            .par_iter()
            .fold(EAcc::default, |mut acc, l| {
                let idx = rayon::current_thread_index().unwrap_or(slots.len() - 1).min(slots.len() - 1);
                let slot = &slots[idx];
                for (k, pert) in &scalings {
                    let d: Vec<u128> = l.iter().enumerate().map(|(i, x)| { let v = x * k; if *pert != 0 && i % 2 == 1 && v > 0 { (v as i128 + pert) as u128 } else { v } }).collect();
                    let sum: u128 = d.iter().sum();
                    let base_sum: u128 = l.iter().sum();
                    for a in 0..=(base_sum + 6) {
                        let amount = a * k;
                        c12_check_one(&d, amount, &mut acc, Some(slot));
                        if *k > 1 && a > 0 {
                            c12_check_one(&d, amount - 1, &mut acc, Some(slot));
                            c12_check_one(&d, amount + 1, &mut acc, Some(slot));
                        }
                    }
                    // exactly the total and one beyond
                    c12_check_one(&d, sum, &mut acc, Some(slot));
                    c12_check_one(&d, sum + 1, &mut acc, Some(slot));
                }
                *slot.lock().unwrap() = (String::new(), Instant::now());
                acc
            })
            .reduce(EAcc::default, |a, b| a.merge(b));
        // a second box: many validators with large, nearly equal delegations (pool totals 1e17..1e18), small amounts
        let mut big: Vec<Vec<u128>> = vec![];
        for n in [6usize, 7, 9, 12, 14, 15, 17, 18] {
            for x in [166_666_666_666_666_000u128, 100_000_000_000_000_003, 55_555_555_555_555_555, 999_999_999_999_999_999 / n as u128] {
                if x * n as u128 > 1_000_000_000_000_000_000 {
                    continue;
                }
                for pat in 0..4u32 {
                    let mut d = vec![x; n];
                    match pat {
                        1 => d[0] += 1,
                        2 => d[n - 1] -= 1,
                        3 => {
                            for (i, v) in d.iter_mut().enumerate() {
                                *v += i as u128;
                            }
                        }
                        _ => {}
                    }
                    big.push(d);
                }
            }
        }
        let acc2 = big
            .par_iter()
            .fold(EAcc::default, |mut acc, d| {
                let n = d.len() as u128;
                for a in (0..=(2 * n + 3)).chain([3_997u128, 1_000_003, 10u128.pow(15) + 7]) {
                    c12_check_one(d, a, &mut acc, None);
                }
                acc.count("c12_large_n_lists");
                acc
            })
            .reduce(EAcc::default, |a, b| a.merge(b));
        let acc = acc.merge(acc2);
        done.store(true, Ordering::Relaxed);
        let _ = wd.join();
        let n = (ls.len() + big.len()) as u64;
        let samples = vec![json!({"delegations":["0","3","3","1"],"amounts":"0..=13 and the same box scaled by 1e6+3, 1e12+7, ~1e18/n with +-1 perturbations"}), json!({"delegations": ls[ls.len() / 2], "amounts": "0..=sum+6"})];
        finish(self.name(), acc, n, samples, t0)
    }
    fn replay(&self, seed: &str, _actions: &[Action], verbose: bool) -> Vec<(Viol, usize)> {
        let v: Value = serde_json::from_str(seed).unwrap_or_default();
        let d: Vec<u128> = v["delegations"].as_array().cloned().unwrap_or_default().iter().map(|x| x.as_str().unwrap_or("0").parse().unwrap_or(0)).collect();
        let amount: u128 = v["amount"].as_str().unwrap_or("0").parse().unwrap_or(0);
        let mut acc = EAcc::default();
        c12_check_one(&d, amount, &mut acc, None);
        if verbose {
            println!("  delegations {:?} amount {}", d, amount);
            println!("  calculate_delegations   -> {:?}", calculate_delegations(Uint128::new(amount), &vals(&d)));
            println!("  calculate_undelegations -> {:?}", calculate_undelegations(Uint128::new(amount), vals(&d)));
        }
        acc.viols.into_values().map(|(v, _, _)| (v, 1)).collect()
    }
}

// =============================================================================================
// C17

pub struct C17Enum {
    /// a swap denom listed twice in the dispatcher's configuration (UpdateSwapDenom never de-duplicates)
    pub duplicate_denom: Option<&'static str>,
    pub balances: Vec<u128>,
    pub bonded: Vec<u128>,
    pub prices: Vec<&'static str>,
    pub rates: Vec<&'static str>,
    pub third_denom: Vec<u128>,
    pub label: String,
}

fn c17_base(rate: &str, price: &str, third: bool) -> Chain {
    let mut cfg = Cfg { keeper_rate: "0", price: "1", ..Cfg::default() };
    if third {
        cfg.swap_denoms = vec![USEI, KUSD, "uusdr"];
    }
    let mut c = deploy(&cfg);
    // the keeper rate is set through the owner's UpdateConfig (the real configuration path)
    let r = c.tx(OWNER, DISP, &json!({"update_config":{"hub_contract":null,"bsei_reward_contract":null,"stsei_reward_denom":null,"bsei_reward_denom":null,"krp_keeper_address":null,"krp_keeper_rate":rate}}), &[]);
    r.expect("keeper rate update");
    c.price = dec(price).atomics().u128();
    // somebody holds bSei so that the reward contract's index moves
    run_prefix(&mut c, &[bond(ALICE, 1000), bond_st(BOB, 1000)]);
    c
}

fn zero_send_sig(e: &str) -> Option<String> {
    let i = e.find("zero amount of ")?;
    let rest = &e[i + "zero amount of ".len()..];
    let mut it = rest.split_whitespace();
    let denom = it.next()?;
    let _from = it.next()?;
    let from = it.next()?;
    let _to = it.next()?;
    let to = it.next()?;
    Some(format!("zero-coin bank send {}->{} denom={}", from, to, denom))
}

#[allow(clippy::too_many_arguments)]
pub fn c17_check_one(base: &Chain, usei: u128, kusd: u128, third: u128, st: u128, b: u128, acc: &mut EAcc, verbose: bool) {
    let rate: Decimal = {
        let cfg: basset::dispatcher::ConfigResponse = base.query(DISP, &basset_sei_rewards_dispatcher::msg::QueryMsg::Config {}).expect("dispatcher config");
        cfg.krp_keeper_rate
    };
    let price = base.price_dec();
    let input = || json!({"usei": usei.to_string(), "kusd": kusd.to_string(), "uusdr": third.to_string(), "stsei_bonded": st.to_string(), "bsei_bonded": b.to_string(), "price": price.to_string(), "keeper_rate": rate.to_string()});
    // envelope E1: every amount, also after conversion at the oracle price, stays within 1e18
    {
        let inv0 = price.inv().unwrap_or(Decimal::zero());
        let in_usei = Uint128::new(usei).checked_add(Uint128::new(kusd + third).checked_mul_floor(inv0).unwrap_or(Uint128::MAX)).unwrap_or(Uint128::MAX);
        let in_kusd = Uint128::new(kusd + third).checked_add(Uint128::new(usei).checked_mul_floor(price).unwrap_or(Uint128::MAX)).unwrap_or(Uint128::MAX);
        if in_usei.u128() > ONE || in_kusd.u128() > ONE {
            acc.count("c17_tuples_outside_envelope_skipped");
            return;
        }
    }
    let mut c = base.clone();
    c.credit(DISP, USEI, usei);
    c.credit(DISP, KUSD, kusd);
    c.credit(DISP, "uusdr", third);
    acc.evals += 1;
    // ---- swap
    let kusd_total = kusd + third; // the stub swaps other denoms 1:1 into the bSei reward denom
    let swap = exec("swap_to_reward_denom".into(), HUB, DISP, json!({"swap_to_reward_denom":{"bsei_total_bonded":b.to_string(),"stsei_total_bonded":st.to_string()}}), &[]);
    let o1 = apply(&mut c, &swap);
    if verbose {
        println!("  swap_to_reward_denom -> {:?}", o1.res.as_ref().map(|f| f.len()).map_err(|e| e.clone()));
    }
    let inv = price.inv().unwrap_or(Decimal::zero());
    let total_in_usei = usei + (Uint128::new(kusd_total) * inv).u128();
    let share = muldiv(total_in_usei, st, st + b);
    match &o1.res {
        Err(e) => {
            acc.viol("C17.swap_fails", format!("SwapToRewardDenom fails: {}", crate::unbondlc::classify_err(e)), e.clone(), input());
            return;
        }
        Ok(fx) => {
            // the balancing swap is the message to the swap contract that offers one of the two reward denoms (read from
            // the executed message, not from response attributes); swaps of third denoms offer that third denom
            let mut offer_amt: u128 = 0;
            let mut offer_den = String::new();
            for e in fx {
                if let Fx::Exec { contract, msg, .. } = e {
                    if contract == SWAP {
                        let fc = &msg["swap_denom"]["from_coin"];
                        let d = fc["denom"].as_str().unwrap_or("");
                        if d == USEI || d == KUSD {
                            offer_amt += fc["amount"].as_str().unwrap_or("0").parse::<u128>().unwrap_or(0);
                            offer_den = d.to_string();
                        }
                    }
                }
            }
            let held = if offer_den == USEI { usei } else { kusd_total };
            if offer_amt > 0 {
                acc.nontrivial += 1;
                acc.count(if offer_den == USEI { "c17_sell_usei" } else { "c17_sell_kusd" });
            }
            if offer_amt > held {
                acc.viol("C17.offer_le_held", format!("swap offers more {} than the dispatcher holds", offer_den), format!("offer {} held {}", offer_amt, held), input());
            }
            // every swap message carries exactly the coins it offers
            for e in fx {
                if let Fx::Exec { contract, msg, funds, .. } = e {
                    if contract == SWAP {
                        let fc = &msg["swap_denom"]["from_coin"];
                        let a: u128 = fc["amount"].as_str().unwrap_or("0").parse().unwrap_or(0);
                        let d = fc["denom"].as_str().unwrap_or("");
                        if funds.iter().find(|(x, _)| x == d).map(|x| x.1).unwrap_or(0) != a {
                            acc.viol("C17.offer_le_held", "swap message funds differ from the offered coin".into(), format!("{:?} vs {:?}", funds, fc), input());
                        }
                    }
                }
            }
            let usei_post = c.bal(DISP, USEI);
            let tol = 2 + (Uint128::new(1) * inv).u128() + if inv.atomics().u128() % ONE != 0 { 1 } else { 0 };
            let sold_usei = offer_den == USEI && offer_amt > 0;
            if sold_usei {
                if usei_post != share {
                    acc.viol("C17.split", "stSei-side share after selling usei differs from total x st/(st+b)".into(), format!("usei after {} expected {}", usei_post, share), input());
                }
            } else if usei_post.abs_diff(share) > tol {
                acc.viol("C17.split", "stSei-side share after the swap differs from total x st/(st+b) beyond rounding".into(), format!("usei after {} expected {} tolerance {}", usei_post, share, tol), input());
            }
        }
    }
    // ---- dispatch
    let (u0, k0) = (c.bal(DISP, USEI), c.bal(DISP, KUSD));
    let keeper0 = (c.bal(KEEPER, USEI), c.bal(KEEPER, KUSD));
    let reward0 = c.bal(REWARD, KUSD);
    let deleg0 = c.total_delegated(HUB);
    acc.evals += 1;
    let disp = exec("dispatch_rewards".into(), HUB, DISP, json!({"dispatch_rewards":{}}), &[]);
    let o2 = apply(&mut c, &disp);
    if verbose {
        println!("  held before dispatch: {} usei {} kusd", u0, k0);
        println!("  dispatch_rewards -> {:?}", o2.res.as_ref().map(|f| f.len()).map_err(|e| e.clone()));
    }
    match &o2.res {
        Err(e) => {
            let sig = zero_send_sig(e).unwrap_or_else(|| format!("DispatchRewards fails: {}", crate::unbondlc::classify_err(e)));
            let oracle = if e.contains("zero amount") { "C17.zero_coin_send" } else { "C17.dispatch_fails" };
            acc.count("c17_dispatch_failed");
            acc.viol(oracle, sig, format!("held {} usei {} kusd, keeper rate {}: {}", u0, k0, rate, e), input());
        }
        Ok(fx) => {
            acc.count("c17_dispatch_ok");
            if u0 > 0 || k0 > 0 {
                acc.nontrivial += 1;
            }
            let ku = c.bal(KEEPER, USEI) - keeper0.0;
            let kk = c.bal(KEEPER, KUSD) - keeper0.1;
            let eu = (Uint128::new(u0) * rate).u128();
            let ek = (Uint128::new(k0) * rate).u128();
            if ku != eu || kk != ek {
                acc.viol("C17.keeper_fee", "keeper did not receive exactly floor(balance x rate)".into(), format!("got {} usei {} kusd expected {} {}", ku, kk, eu, ek), input());
            }
            if c.bal(DISP, USEI) != 0 || c.bal(DISP, KUSD) != 0 {
                acc.viol("C17.keeps_nothing", "dispatcher still holds reward coins after dispatch".into(), format!("{} usei {} kusd", c.bal(DISP, USEI), c.bal(DISP, KUSD)), input());
            }
            let to_reward = c.bal(REWARD, KUSD) - reward0;
            let rebonded = c.total_delegated(HUB) - deleg0;
            if to_reward != k0 - kk || rebonded != u0 - ku {
                acc.viol("C17.remainder", "remainder not forwarded in full (bSei share to reward contract, stSei share re-bonded)".into(), format!("reward +{} expected {}; delegated +{} expected {}", to_reward, k0 - kk, rebonded, u0 - ku), input());
            }
            // order: the bSei share reaches the reward contract before its index update
            let mut seen_send = k0 - kk == 0;
            let mut index_after = false;
            for e in fx {
                match e {
                    Fx::BankSend { to, .. } if to == REWARD => seen_send = true,
                    Fx::Exec { contract, msg, .. } if contract == REWARD && msg.get("update_global_index").is_some() => index_after = seen_send,
                    Fx::BankSend { coins, .. } => {
                        if coins.iter().any(|(_, a)| *a == 0) {
                            acc.viol("C17.zero_coin_send", "zero coin in an executed bank send".into(), format!("{:?}", coins), input());
                        }
                    }
                    _ => {}
                }
            }
            if !index_after {
                acc.viol("C17.remainder", "reward contract's index update does not follow the bSei share transfer".into(), String::new(), input());
            }
        }
    }
}

impl Runnable for C17Enum {
    fn name(&self) -> String {
        format!("enum/c17-{}", self.label)
    }
    fn run(&self, _perm: u64) -> Report {
        let t0 = Instant::now();
        let third = self.third_denom.len() > 1;
        let mut bases: Vec<Chain> = vec![];
        for r in &self.rates {
            for p in &self.prices {
                let mut b = c17_base(r, p, third);
                if let Some(d) = self.duplicate_denom {
                    b.tx(OWNER, DISP, &json!({"update_swap_denom":{"swap_denom":d,"is_add":true}}), &[]).expect("duplicate swap denom");
                }
                bases.push(b);
            }
        }
        let mut tuples: Vec<(usize, u128, u128, u128, u128, u128)> = vec![];
        for (bi, _) in bases.iter().enumerate() {
            for u in &self.balances {
                for k in &self.balances {
                    for t in &self.third_denom {
                        for st in &self.bonded {
                            for b in &self.bonded {
                                if *st == 0 && *b == 0 {
                                    continue;
                                }
                                tuples.push((bi, *u, *k, *t, *st, *b));
                            }
                        }
                    }
                }
            }
        }
        let acc = tuples
            .par_iter()
            .fold(EAcc::default, |mut acc, (bi, u, k, t, st, b)| {
                c17_check_one(&bases[*bi], *u, *k, *t, *st, *b, &mut acc, false);
                acc
            })
            .reduce(EAcc::default, |a, b| a.merge(b));
        let n = tuples.len() as u64;
        let samples = vec![
            json!({"usei":"10","kusd":"0","stsei_bonded":"1","bsei_bonded":"1","price":"1","keeper_rate":"0.05"}),
            json!({"usei":"1000000000000000000","kusd":"999","stsei_bonded":"3","bsei_bonded":"1000000000000000000","price":"0.000001","keeper_rate":"0.999999999999999999"}),
        ];
        finish(self.name(), acc, n, samples, t0)
    }
    fn replay(&self, seed: &str, _actions: &[Action], verbose: bool) -> Vec<(Viol, usize)> {
        let v: Value = serde_json::from_str(seed).unwrap_or_default();
        let g = |k: &str| -> u128 { v[k].as_str().unwrap_or("0").parse().unwrap_or(0) };
        let rate = v["keeper_rate"].as_str().unwrap_or("0").to_string();
        let price = v["price"].as_str().unwrap_or("1").to_string();
        let rate_s: &'static str = Box::leak(rate.into_boxed_str());
        let price_s: &'static str = Box::leak(price.into_boxed_str());
        let mut base = c17_base(rate_s, price_s, g("uusdr") > 0 || self.third_denom.len() > 1);
        if let Some(d) = self.duplicate_denom {
            base.tx(OWNER, DISP, &json!({"update_swap_denom":{"swap_denom":d,"is_add":true}}), &[]).expect("duplicate swap denom");
        }
        let mut acc = EAcc::default();
        if verbose {
            println!("  input {}", v);
        }
        c17_check_one(&base, g("usei"), g("kusd"), g("uusdr"), g("stsei_bonded"), g("bsei_bonded"), &mut acc, verbose);
        acc.viols.into_values().map(|(v, _, _)| (v, 1)).collect()
    }
}
