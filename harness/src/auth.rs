//! C10 — privileged operations are rejected for every unauthorised sender.
//! An explicit authorisation table (message -> designated principals) is checked as a full
//! (message x sender) matrix in every state of a BFS over the two-step ownership machine of each
//! owned contract, crossed with fresh and evolved business states.
use crate::actions::*;
use crate::chain::*;
use crate::deploy::*;
use crate::explore::*;
use serde_json::{json, Value};
use sha2::{Digest, Sha256};
use std::collections::BTreeMap;

pub const OWNED: [&str; 4] = [HUB, DISP, REWARD, REG];
const SENDERS: [&str; 17] = [OWNER, NOMINEE, EVE, HUB, BSEI, STSEI, REWARD, DISP, REG, SWAP, ORACLE, AIRDROP, KEEPER, UPDATER, ALICE, BOB, "dispatcher2"];

#[derive(Clone)]
pub struct Auth {
    pub contract: &'static str,
    pub seeds: Vec<&'static str>,
}

#[derive(Clone, Debug)]
pub struct G {
    /// reference model of the two-step ownership transfer, per owned contract: (owner, nominee)
    pub own: BTreeMap<String, (String, String)>,
}

#[derive(Clone, Debug)]
enum Allow {
    Owner,
    Nominee,
    Addrs(Vec<&'static str>),
    OwnerOr(Vec<&'static str>),
    /// the rewards dispatcher the hub names right now (the owner may have replaced it)
    CurrentDispatcher,
    Nobody,
}

struct Entry {
    contract: &'static str,
    label: &'static str,
    msg: Value,
    funds: Vec<(&'static str, u128)>,
    allow: Allow,
}

fn table() -> Vec<Entry> {
    let e = |contract: &'static str, label: &'static str, msg: Value, allow: Allow| Entry { contract, label, msg, funds: vec![], allow };
    let none_cfg = json!({"update_config":{"rewards_dispatcher_contract":null,"validators_registry_contract":null,"bsei_token_contract":null,"stsei_token_contract":null,"airdrop_registry_contract":null,"rewards_contract":null,"update_reward_index_addr":null}});
    let mut t = vec![
        e(HUB, "hub.update_config", none_cfg, Allow::Owner),
        e(HUB, "hub.update_config(update_reward_index_addr)", json!({"update_config":{"rewards_dispatcher_contract":null,"validators_registry_contract":null,"bsei_token_contract":null,"stsei_token_contract":null,"airdrop_registry_contract":null,"rewards_contract":null,"update_reward_index_addr":UPDATER}}), Allow::Owner),
        e(HUB, "hub.update_config(bsei_token_contract)", json!({"update_config":{"rewards_dispatcher_contract":null,"validators_registry_contract":null,"bsei_token_contract":"bsei2","stsei_token_contract":null,"airdrop_registry_contract":null,"rewards_contract":null,"update_reward_index_addr":null}}), Allow::Nobody),
        e(HUB, "hub.update_config(stsei_token_contract)", json!({"update_config":{"rewards_dispatcher_contract":null,"validators_registry_contract":null,"bsei_token_contract":null,"stsei_token_contract":"stsei2","airdrop_registry_contract":null,"rewards_contract":null,"update_reward_index_addr":null}}), Allow::Nobody),
        e(HUB, "hub.update_params", json!({"update_params":{"epoch_period":10,"unbonding_period":null,"peg_recovery_fee":null,"er_threshold":null,"reward_denom":null,"paused":null}}), Allow::Owner),
        e(HUB, "hub.update_params(pause)", json!({"update_params":{"epoch_period":null,"unbonding_period":null,"peg_recovery_fee":null,"er_threshold":null,"reward_denom":null,"paused":true}}), Allow::Owner),
        e(HUB, "hub.set_owner", json!({"set_owner":{"new_owner_addr":NOMINEE}}), Allow::Owner),
        e(HUB, "hub.accept_ownership", json!({"accept_ownership":{}}), Allow::Nominee),
        Entry { contract: HUB, label: "hub.bond_rewards", msg: json!({"bond_rewards":{}}), funds: vec![(USEI, 5)], allow: Allow::CurrentDispatcher },
        e(HUB, "hub.redelegate_proxy", json!({"redelegate_proxy":{"src_validator":"val1","redelegations":[]}}), Allow::Addrs(vec![REG])),
        e(HUB, "hub.redelegate_proxy(move)", json!({"redelegate_proxy":{"src_validator":"val1","redelegations":[["val2",{"denom":USEI,"amount":"1"}]]}}), Allow::Addrs(vec![REG])),
        e(HUB, "hub.update_global_index", json!({"update_global_index":{"airdrop_hooks":null}}), Allow::Addrs(vec![UPDATER, REG])),
        e(HUB, "hub.swap_hook", json!({"swap_hook":{"airdrop_token_contract":BSEI,"airdrop_swap_contract":AIRDROP,"swap_msg":hook("swap")}}), Allow::Addrs(vec![HUB])),
        e(HUB, "hub.claim_airdrop", json!({"claim_airdrop":{"airdrop_token_contract":BSEI,"airdrop_contract":AIRDROP,"airdrop_swap_contract":AIRDROP,"claim_msg":hook("claim"),"swap_msg":hook("swap")}}), Allow::Addrs(vec![AIRDROP])),
        e(HUB, "hub.receive(unbond)", json!({"receive":{"sender":ALICE,"amount":"1","msg":hook("unbond")}}), Allow::Addrs(vec![BSEI, STSEI])),
        e(HUB, "hub.receive(convert)", json!({"receive":{"sender":ALICE,"amount":"1","msg":hook("convert")}}), Allow::Addrs(vec![BSEI, STSEI])),
        e(DISP, "dispatcher.swap_to_reward_denom", json!({"swap_to_reward_denom":{"bsei_total_bonded":"1","stsei_total_bonded":"1"}}), Allow::Addrs(vec![HUB])),
        e(DISP, "dispatcher.dispatch_rewards", json!({"dispatch_rewards":{}}), Allow::Addrs(vec![HUB])),
        e(DISP, "dispatcher.update_config", json!({"update_config":{"hub_contract":null,"bsei_reward_contract":null,"stsei_reward_denom":null,"bsei_reward_denom":null,"krp_keeper_address":null,"krp_keeper_rate":null}}), Allow::Owner),
        e(DISP, "dispatcher.update_config(keeper)", json!({"update_config":{"hub_contract":null,"bsei_reward_contract":null,"stsei_reward_denom":null,"bsei_reward_denom":null,"krp_keeper_address":EVE,"krp_keeper_rate":"0.9"}}), Allow::Owner),
        e(DISP, "dispatcher.update_swap_contract", json!({"update_swap_contract":{"swap_contract":"swap2"}}), Allow::Owner),
        e(DISP, "dispatcher.update_swap_denom", json!({"update_swap_denom":{"swap_denom":"ukrw","is_add":true}}), Allow::Owner),
        e(DISP, "dispatcher.update_oracle_contract", json!({"update_oracle_contract":{"oracle_contract":"oracle2"}}), Allow::Owner),
        e(DISP, "dispatcher.set_owner", json!({"set_owner":{"new_owner_addr":NOMINEE}}), Allow::Owner),
        e(DISP, "dispatcher.accept_ownership", json!({"accept_ownership":{}}), Allow::Nominee),
        e(REWARD, "reward.update_config", json!({"update_config":{"hub_contract":null,"reward_denom":null,"swap_contract":null}}), Allow::Owner),
        e(REWARD, "reward.update_config(hub)", json!({"update_config":{"hub_contract":"hub2","reward_denom":null,"swap_contract":null}}), Allow::Owner),
        e(REWARD, "reward.update_swap_denom", json!({"update_swap_denom":{"swap_denom":"ukrw","is_add":true}}), Allow::Owner),
        e(REWARD, "reward.set_owner", json!({"set_owner":{"new_owner_addr":NOMINEE}}), Allow::Owner),
        e(REWARD, "reward.accept_ownership", json!({"accept_ownership":{}}), Allow::Nominee),
        e(REWARD, "reward.swap_to_reward_denom", json!({"swap_to_reward_denom":{}}), Allow::CurrentDispatcher),
        e(REWARD, "reward.update_global_index", json!({"update_global_index":{}}), Allow::CurrentDispatcher),
        e(REWARD, "reward.increase_balance", json!({"increase_balance":{"address":ALICE,"amount":"1"}}), Allow::Addrs(vec![BSEI])),
        e(REWARD, "reward.decrease_balance", json!({"decrease_balance":{"address":ALICE,"amount":"1"}}), Allow::Addrs(vec![BSEI])),
        e(REG, "registry.add_validator", json!({"add_validator":{"validator":{"address":"val3"}}}), Allow::OwnerOr(vec![HUB])),
        e(REG, "registry.remove_validator", json!({"remove_validator":{"address":"val2"}}), Allow::Owner),
        e(REG, "registry.update_config", json!({"update_config":{"hub_contract":null}}), Allow::Owner),
        e(REG, "registry.update_config(hub)", json!({"update_config":{"hub_contract":"hub2"}}), Allow::Owner),
        e(REG, "registry.set_owner", json!({"set_owner":{"new_owner_addr":NOMINEE}}), Allow::Owner),
        e(REG, "registry.accept_ownership", json!({"accept_ownership":{}}), Allow::Nominee),
    ];
    for tok in [BSEI, STSEI] {
        t.push(Entry { contract: tok, label: if tok == BSEI { "bsei.mint" } else { "stsei.mint" }, msg: json!({"mint":{"recipient":ALICE,"amount":"1"}}), funds: vec![], allow: Allow::Addrs(vec![HUB]) });
        t.push(Entry { contract: tok, label: if tok == BSEI { "bsei.burn" } else { "stsei.burn" }, msg: json!({"burn":{"amount":"1"}}), funds: vec![], allow: Allow::Addrs(vec![HUB]) });
    }
    t
}

fn is_auth_error(e: &str) -> bool {
    let l = e.to_lowercase();
    l.contains("unauthorized") || l.contains("sender must be")
}

impl Scenario for Auth {
    type G = G;
    type O = ();
    fn name(&self) -> String {
        format!("auth/{}", self.contract)
    }
    fn seeds(&self) -> Vec<(String, Chain, G)> {
        let mut out = vec![];
        for s in &self.seeds {
            let mut c = deploy(&Cfg::default());
            for p in SENDERS {
                c.credit(p, USEI, 1_000_000);
            }
            let prefix: Vec<Action> = match *s {
                "fresh" => vec![],
                "funded" => vec![bond(ALICE, 1000), bond_st(BOB, 777), bond_st(ALICE, 50), bond(BOB, 20), transfer(ALICE, HUB, BSEI, 3)],
                "no_airdrop_registry" => {
                    // the six protocol contracts wired, no airdrop registry registered (hub config slot is None)
                    c = deploy(&Cfg::default());
                    c.instantiate(
                        Kind::Hub,
                        "hub2",
                        OWNER,
                        &json!({"epoch_period":10,"underlying_coin_denom":USEI,"unbonding_period":30,"peg_recovery_fee":"0","er_threshold":"1","reward_denom":KUSD,"update_reward_index_addr":UPDATER}),
                    )
                    .unwrap();
                    let (k, st) = c.contracts.remove("hub2").unwrap();
                    c.contracts.insert(HUB.into(), (k, st));
                    c.tx(OWNER, HUB, &json!({"update_config":{"rewards_dispatcher_contract":DISP,"validators_registry_contract":REG,"bsei_token_contract":BSEI,"stsei_token_contract":STSEI,"airdrop_registry_contract":null,"rewards_contract":REWARD,"update_reward_index_addr":null}}), &[]).unwrap();
                    for p in SENDERS {
                        c.credit(p, USEI, 1_000_000);
                    }
                    vec![bond(ALICE, 1000), bond_st(BOB, 777), transfer(ALICE, HUB, BSEI, 3)]
                }
                "dispatcher_replaced" => vec![
                    // the reward plumbing has run once, then the hub owner names another dispatcher
                    bond(ALICE, 1000),
                    bond_st(BOB, 777),
                    transfer(ALICE, HUB, BSEI, 3),
                    accrue("val1", USEI, 1000),
                    update_index(UPDATER),
                    exec("hub.update_config(dispatcher2)".into(), OWNER, HUB, json!({"update_config":{"rewards_dispatcher_contract":"dispatcher2","validators_registry_contract":null,"bsei_token_contract":null,"stsei_token_contract":null,"airdrop_registry_contract":null,"rewards_contract":null,"update_reward_index_addr":null}}), &[]),
                ],
                "evolved" => vec![
                    bond(ALICE, 1000),
                    bond_st(BOB, 777),
                    bond_st(ALICE, 50),
                    bond(BOB, 20),
                    transfer(ALICE, HUB, BSEI, 3),
                    unbond(ALICE, BSEI, 100),
                    advance(11),
                    unbond(BOB, STSEI, 50),
                    slash_bonded("val1", 1, 10),
                    accrue("val2", USEI, 1000),
                    advance(3),
                ],
                other => panic!("krpmc: unknown seed {}", other),
            };
            run_prefix(&mut c, &prefix);
            let mut own = BTreeMap::new();
            for k in OWNED {
                own.insert(k.to_string(), (OWNER.to_string(), OWNER.to_string()));
            }
            out.push((s.to_string(), c, G { own }));
        }
        out
    }
    fn feed_ghost(&self, g: &G, h: &mut Sha256) {
        for (k, (o, n)) in &g.own {
            h.update(k.as_bytes());
            h.update(o.as_bytes());
            h.update(b"/");
            h.update(n.as_bytes());
        }
    }
    fn observe(&self, _c: &Chain) {}
    fn actions(&self, _c: &Chain, _o: &(), _g: &G) -> Vec<Action> {
        let k = self.contract;
        let mut v = vec![];
        for s in [OWNER, NOMINEE, EVE] {
            for x in [NOMINEE, EVE, OWNER] {
                v.push(exec(format!("{}.set_owner({}) by {}", k, x, s), s, k, json!({"set_owner":{"new_owner_addr":x}}), &[]));
            }
            v.push(exec(format!("{}.accept_ownership by {}", k, s), s, k, json!({"accept_ownership":{}}), &[]));
        }
        v
    }
    fn step(&self, pre: &Chain, _po: &(), g: &G, a: &Action, out: &Outcome, post: &Chain, _qo: &(), cx: &mut Cx) -> G {
        // reference model of the two-step transfer
        let mut g2 = g.clone();
        let (sender, contract, msg) = a.exec_parts().unwrap();
        let (owner, nominee) = g.own.get(contract).cloned().unwrap();
        cx.validated();
        if let Some(m) = msg.get("set_owner") {
            cx.trigger("c10_ownership_steps");
            let x = m["new_owner_addr"].as_str().unwrap().to_string();
            if sender == owner {
                if !out.ok() {
                    cx.viol("C10.ownership", "the current owner could not nominate a new owner", format!("{}: {}", a.label, out.err()));
                }
                g2.own.insert(contract.to_string(), (owner, x));
            } else if out.ok() || pre.fingerprint() != post.fingerprint() {
                cx.viol("C10.ownership", "somebody other than the current owner nominated a new owner", a.label.clone());
            }
        } else if msg.get("accept_ownership").is_some() {
            cx.trigger("c10_ownership_steps");
            if sender == nominee {
                if !out.ok() {
                    cx.viol("C10.ownership", "the nominee could not accept the ownership", format!("{}: {}", a.label, out.err()));
                }
                g2.own.insert(contract.to_string(), (nominee.clone(), nominee));
            } else if out.ok() || pre.fingerprint() != post.fingerprint() {
                cx.viol("C10.ownership", "somebody other than the nominee accepted the ownership", a.label.clone());
            }
        }
        g2
    }
    fn state(&self, c: &Chain, _o: &(), g: &G, cx: &mut Cx) {
        // the reference ownership model agrees with the public queries
        for k in [HUB, DISP, REWARD] {
            let cfg = c.query_value(k, &json!({"config":{}})).expect("config");
            let no = c.query_value(k, &json!({"new_owner":{}})).expect("new_owner");
            let (o, n) = g.own.get(k).cloned().unwrap();
            if cfg["owner"].as_str() != Some(o.as_str()) || no["new_owner"].as_str() != Some(n.as_str()) {
                cx.viol("C10.ownership", "owner / nominee reported by the contract differ from the two-step transfer model", format!("{}: config owner {} nominee {} model {} / {}", k, cfg["owner"], no["new_owner"], o, n));
            }
        }
        let base = c.fingerprint();
        for e in table() {
            let allowed: Vec<String> = match &e.allow {
                Allow::Nobody => vec![],
                Allow::Owner => vec![g.own[e.contract].0.clone()],
                Allow::Nominee => vec![g.own[e.contract].1.clone()],
                Allow::Addrs(v) => v.iter().map(|s| s.to_string()).collect(),
                Allow::CurrentDispatcher => {
                    let cfg = c.query_value(HUB, &json!({"config":{}})).expect("hub config");
                    cfg["reward_dispatcher_contract"].as_str().map(|s| vec![s.to_string()]).unwrap_or_default()
                }
                Allow::OwnerOr(v) => {
                    let mut r: Vec<String> = v.iter().map(|s| s.to_string()).collect();
                    r.push(g.own[e.contract].0.clone());
                    r
                }
            };
            for s in SENDERS {
                let mut cc = c.clone();
                let a = exec(format!("{} by {}", e.label, s), s, e.contract, e.msg.clone(), &e.funds);
                let out = apply(&mut cc, &a);
                cx.count("c10_matrix_cells");
                cx.probe(1);
                if allowed.iter().any(|x| x == s) {
                    cx.trigger("c10_authorised_cells");
                    // only a refusal by the addressed contract itself counts (errors carry the name of the contract that
                    // raised them); a sibling further down the call tree may legitimately refuse in an odd wiring
                    if !out.ok() && is_auth_error(out.err()) && out.err().starts_with(&format!("{}:", e.contract)) {
                        cx.viol("C10.designated_principal", format!("{} rejects its designated principal", e.label), format!("{}: {}", a.label, out.err()));
                    }
                    if out.ok() {
                        cx.count("c10_authorised_cells_succeeded");
                    }
                } else {
                    cx.trigger("c10_unauthorised_cells");
                    if out.ok() {
                        cx.viol("C10.unauthorised_accepted", format!("{} accepted from an unauthorised sender", e.label), format!("{} (designated: {:?})", a.label, allowed));
                    } else if cc.fingerprint() != base {
                        cx.viol("C10.unauthorised_changes", format!("{} rejected but changed state", e.label), a.label.clone());
                    }
                }
            }
        }
    }
}

// =============================================================================================
// wiring order: the two token addresses are write-once, whatever the order of the owner's UpdateConfig messages

#[derive(Clone)]
pub struct Wiring;

fn cfg_msg(fields: &[(&str, &str)]) -> Value {
    let mut m = serde_json::Map::new();
    for k in ["rewards_dispatcher_contract", "validators_registry_contract", "bsei_token_contract", "stsei_token_contract", "airdrop_registry_contract", "rewards_contract", "update_reward_index_addr"] {
        m.insert(k.to_string(), Value::Null);
    }
    for (k, v) in fields {
        m.insert(k.to_string(), json!(v));
    }
    json!({ "update_config": m })
}

impl Scenario for Wiring {
    type G = ();
    type O = Value;
    fn name(&self) -> String {
        "auth/hub-wiring-order".into()
    }
    fn seeds(&self) -> Vec<(String, Chain, ())> {
        // a hub straight after instantiate: nothing registered yet
        let mut c = deploy(&Cfg::default());
        c.instantiate(
            Kind::Hub,
            "hub2",
            OWNER,
            &json!({"epoch_period":10,"underlying_coin_denom":USEI,"unbonding_period":30,"peg_recovery_fee":"0","er_threshold":"1","reward_denom":KUSD,"update_reward_index_addr":UPDATER}),
        )
        .unwrap();
        let (k, st) = c.contracts.remove("hub2").unwrap();
        c.contracts.insert(HUB.into(), (k, st));
        vec![("fresh hub, nothing registered".into(), c, ())]
    }
    fn feed_ghost(&self, _g: &(), _h: &mut Sha256) {}
    fn observe(&self, c: &Chain) -> Value {
        c.query_value(HUB, &json!({"config":{}})).expect("hub config")
    }
    fn actions(&self, _c: &Chain, _o: &Value, _g: &()) -> Vec<Action> {
        let mut v = vec![];
        let singles: Vec<(&str, &str)> = vec![
            ("bsei_token_contract", BSEI),
            ("bsei_token_contract", "bsei2"),
            ("stsei_token_contract", STSEI),
            ("stsei_token_contract", "stsei2"),
            ("rewards_dispatcher_contract", DISP),
            ("validators_registry_contract", REG),
        ];
        for (k, x) in &singles {
            v.push(exec(format!("hub.update_config({}={})", k, x), OWNER, HUB, cfg_msg(&[(k, x)]), &[]));
        }
        v.push(exec("hub.update_config(bsei+stsei)".into(), OWNER, HUB, cfg_msg(&[("bsei_token_contract", BSEI), ("stsei_token_contract", STSEI)]), &[]));
        v.push(exec("hub.update_config(bsei2+stsei2)".into(), OWNER, HUB, cfg_msg(&[("bsei_token_contract", "bsei2"), ("stsei_token_contract", "stsei2")]), &[]));
        v.push(exec("hub.update_config(bsei by eve)".into(), EVE, HUB, cfg_msg(&[("bsei_token_contract", "bsei2")]), &[]));
        v
    }
    fn step(&self, pre: &Chain, po: &Value, _g: &(), a: &Action, out: &Outcome, post: &Chain, qo: &Value, cx: &mut Cx) {
        let (sender, _, msg) = a.exec_parts().unwrap();
        let body = &msg["update_config"];
        cx.validated();
        let mut must_fail = sender != OWNER;
        for f in ["bsei_token_contract", "stsei_token_contract"] {
            if !body[f].is_null() && !po[f].is_null() {
                must_fail = true;
            }
        }
        if must_fail {
            cx.trigger("c10_wiring_rejections_expected");
            if out.ok() || pre.fingerprint() != post.fingerprint() {
                cx.viol("C10.token_address_immutable", "a registered token address was changed (or a non-owner configured the hub)", format!("{}: config before {} after {}", a.label, po, qo));
            }
        } else {
            cx.trigger("c10_wiring_accepts_expected");
            if !out.ok() {
                cx.viol("C10.designated_principal", "the owner could not register a token address / sibling that was not set yet", format!("{}: {}", a.label, out.err()));
                return;
            }
            for f in ["bsei_token_contract", "stsei_token_contract", "validators_registry_contract"] {
                if !body[f].is_null() && qo[f] != body[f] {
                    cx.viol("C10.token_address_immutable", "an accepted registration did not store the sent address", format!("{}: {} stored {}", a.label, f, qo[f]));
                }
                if body[f].is_null() && qo[f] != po[f] {
                    cx.viol("C10.token_address_immutable", "an omitted address changed", format!("{}: {} {} -> {}", a.label, f, po[f], qo[f]));
                }
            }
        }
    }
    fn state(&self, _c: &Chain, _o: &Value, _g: &(), _cx: &mut Cx) {}
}
