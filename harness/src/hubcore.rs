//! The hub-core scenario: full hub alphabet on the integrated deployment. Serves C02 C03 C04 C06 C13
//! (step/state oracles) and is the state generator for the probes of C09, C11 and C19.
use crate::actions::*;
use crate::chain::*;
use crate::deploy::*;
use crate::explore::*;
use crate::obs::*;
use cosmwasm_std::Decimal;
use sha2::{Digest, Sha256};

#[derive(Clone, Default)]
pub struct Arm {
    pub c02: bool,
    /// C12 end to end: the plans as the hub applies them (registry answer -> delegate messages, delegations -> undelegate messages)
    pub c12: bool,
    /// C15 on the real pipeline: per-holder accrual of every UpdateGlobalIndex that runs through hub, dispatcher and reward contract
    pub c15: bool,
    /// C17 end to end: the split the hub asks the dispatcher for follows the booked stake
    pub c17: bool,
    pub c03: bool,
    pub c04: bool,
    pub c06: bool,
    pub c13: bool,
    pub c19: bool,
    pub c09: bool,
    pub c11: bool,
}

#[derive(Clone)]
pub struct HubCore {
    pub label: String,
    pub arm: Arm,
    pub users: Vec<&'static str>,
    pub bond_amounts: Vec<u128>,
    pub peg_fee: &'static str,
    pub threshold: &'static str,
    pub budget: u8,
    pub with_registry: bool,
    pub with_rewards: bool,
    pub with_transfers: bool,
    pub with_convert: bool,
    pub with_withdraw: bool,
    /// allowance burns (BurnFrom by a spender) of both tokens
    pub with_burn_from: bool,
    pub seeds: Vec<&'static str>,
    pub slash_fracs: Vec<(u128, u128)>,
    pub big: bool,
    pub keeper_rate: &'static str,
    pub price: &'static str,
    pub reward_amounts: Vec<(&'static str, &'static str, u128)>,
}

impl HubCore {
    pub fn base(label: &str) -> HubCore {
        HubCore {
            label: label.into(),
            arm: Arm::default(),
            users: vec![ALICE, BOB],
            bond_amounts: vec![100, 3],
            peg_fee: "0",
            threshold: "1",
            budget: 1,
            with_registry: false,
            with_rewards: false,
            with_transfers: false,
            with_convert: true,
            with_withdraw: true,
            with_burn_from: false,
            seeds: vec!["funded", "slashed", "inflight"],
            slash_fracs: vec![(1, 10)],
            big: false,
            keeper_rate: "0.05",
            price: "1",
            reward_amounts: vec![("val1", USEI, 1000), ("val2", KUSD, 400)],
        }
    }
    pub fn cfg(&self) -> Cfg {
        Cfg { peg_fee: self.peg_fee, threshold: self.threshold, keeper_rate: self.keeper_rate, price: self.price, ..Cfg::default() }
    }
}

#[derive(Clone, Debug, Default)]
pub struct G {
    pub budget: u8,
}

pub fn time_actions(c: &Chain, o: &HubObs, full: bool) -> Vec<Action> {
    // critical instants: epoch boundary and the release instants of unreleased batches
    let mut crit: Vec<u64> = vec![];
    crit.push(o.last_undelegation() + o.params.epoch_period);
    for h in &o.history {
        if !h.released {
            crit.push(h.time + o.params.unbonding_period);
        }
    }
    for u in &c.unbonding {
        crit.push(u.completion);
    }
    // the instant from which a redelegation destination may be redelegated from again
    for t in c.redeleg_until.values() {
        crit.push(*t);
    }
    crit.sort();
    crit.dedup();
    let now = c.time;
    let mut targets: Vec<u64> = vec![now + 1];
    for t in crit {
        if full {
            for x in [t.saturating_sub(1), t, t + 1] {
                if x > now {
                    targets.push(x);
                }
            }
        } else {
            // the first instant at which the comparison flips: epoch uses '>', release uses '>='
            for x in [t, t + 1] {
                if x > now {
                    targets.push(x);
                }
            }
        }
    }
    targets.sort();
    targets.dedup();
    if !full {
        targets.truncate(4);
    }
    targets.into_iter().map(|t| advance(t - now)).collect()
}

pub fn sym_amounts(bal: u128) -> Vec<u128> {
    let mut v = vec![1u128, bal / 2, bal];
    v.retain(|x| *x > 0);
    v.sort();
    v.dedup();
    if v.is_empty() {
        v.push(1);
    }
    v
}

impl Scenario for HubCore {
    type G = G;
    type O = HubObs;
    fn name(&self) -> String {
        format!("hubcore/{}", self.label)
    }
    fn seeds(&self) -> Vec<(String, Chain, G)> {
        let mut out = vec![];
        let g = G { budget: self.budget };
        let k: u128 = if self.big { 1_000_000_000_000_000 } else { 1 };
        for s in &self.seeds {
            let mut cfg = self.cfg();
            let mut prefix: Vec<Action> = vec![bond(ALICE, 1000 * k), bond_st(BOB, 777 * k)];
            match *s {
                "fresh" => prefix.clear(),
                "funded" => {}
                "slashed" => {
                    // a recognised 10% slash of one validator: both rates below 1
                    prefix.push(slash_bonded("val1", 1, 10));
                    prefix.push(check_slashing(CAROL));
                }
                "slashed_unseen" => {
                    prefix.push(slash_bonded("val2", 1, 20));
                }
                "inflight" => {
                    prefix.push(unbond(ALICE, BSEI, 100 * k));
                    prefix.push(advance(11));
                    prefix.push(unbond(BOB, STSEI, 50 * k));
                    prefix.push(advance(3));
                }
                "rewarded" => {
                    prefix.push(accrue("val1", USEI, 400 * k));
                    prefix.push(update_index(UPDATER));
                }
                "three_vals" => {
                    cfg.registered = vec!["val1", "val2", "val3"];
                    prefix = vec![bond(ALICE, 5 * k), bond_st(BOB, 11 * k)];
                }
                "ten_batches" => {
                    for i in 0..10u128 {
                        prefix.push(advance(11));
                        prefix.push(unbond(ALICE, BSEI, (5 + i) * k));
                        if i == 3 || i == 8 {
                            prefix.push(unbond(BOB, STSEI, 7 * k));
                        }
                    }
                    prefix.push(advance(1));
                }
                "dust_pool" => {
                    // a one-unit bSei pool next to a large stSei pool: slashing rounds the small pool to zero
                    prefix = vec![bond(ALICE, k), bond_st(BOB, 1000 * k), bond_st(ALICE, 50 * k)];
                }
                "blocked_removal" => {
                    // val1 was removed while a redelegation into it was in flight: its stake is stranded on an
                    // unregistered validator until somebody calls Redelegations; the registered set is uneven
                    cfg.registered = vec!["val1", "val2", "val3"];
                    prefix = vec![bond(ALICE, 50 * k), bond_st(BOB, 110 * k), remove_validator(OWNER, "val3"), remove_validator(OWNER, "val1"), add_validator(OWNER, "val3")];
                }
                "bsei_all_pending" => {
                    prefix.push(unbond(ALICE, BSEI, 1000 * k));
                    prefix.push(accrue("val1", USEI, 1000 * k));
                    prefix.push(update_index(UPDATER));
                }
                "one_val" => {
                    cfg.registered = vec!["val1"];
                }
                "allowances" => {
                    prefix.push(increase_allowance(ALICE, DAVE, BSEI, 500 * k, None));
                    prefix.push(increase_allowance(BOB, DAVE, STSEI, 300 * k, None));
                }
                "bsei_only" => prefix = vec![bond(ALICE, 1000 * k)],
                "stsei_only" => prefix = vec![bond_st(BOB, 777 * k)],
                "pending_rewards" => {
                    // alice has accrued rewards that a balance change moved into her pending rewards
                    prefix.push(accrue("val2", KUSD, 400 * k));
                    prefix.push(update_index(UPDATER));
                    prefix.push(bond(ALICE, 100 * k));
                }
                "uneven_vals" => {
                    // a validator added after stake exists: the registered set is far from even
                    prefix = vec![bond(ALICE, 30 * k), bond_st(BOB, 31 * k), add_validator(OWNER, "val3")];
                }
                "carol_too" => {
                    prefix.push(bond(CAROL, 10 * k));
                    prefix.push(bond_st(CAROL, 10 * k));
                }
                other => panic!("krpmc: unknown seed {}", other),
            }
            let mut c = deploy(&cfg);
            match try_prefix(&mut c, &prefix) {
                Ok(()) => out.push((s.to_string(), c, g.clone())),
                Err(e) => eprintln!("[{}] seed {} does not exist under this configuration ({}); skipped", self.name(), s, e),
            }
        }
        out
    }
    fn feed_ghost(&self, g: &G, h: &mut Sha256) {
        h.update([g.budget]);
    }
    fn observe(&self, c: &Chain) -> HubObs {
        HubObs::new(c)
    }
    fn actions(&self, c: &Chain, o: &HubObs, g: &G) -> Vec<Action> {
        let mut v = vec![];
        for u in &self.users {
            for a in &self.bond_amounts {
                v.push(bond(u, *a));
            }
            v.push(bond_st(u, self.bond_amounts[0] + 7));
            if self.arm.c03 && *u == self.users[0] {
                // a bond without payment must never mint
                v.push(bond(u, 0));
                v.push(bond_st(u, 0));
            }
            for tok in [BSEI, STSEI] {
                let bal = o.tok_bal(tok, u);
                for a in sym_amounts(bal) {
                    v.push(unbond(u, tok, a));
                }
                if self.with_convert {
                    let mut cs = vec![bal / 2, bal];
                    cs.retain(|x| *x > 0);
                    cs.dedup();
                    for a in cs {
                        v.push(convert(u, tok, a));
                    }
                }
            }
            if self.with_withdraw {
                v.push(withdraw(u));
            }
            if self.arm.c09 || self.arm.c19 {
                v.push(claim(u, None));
            }
        }
        if self.with_transfers {
            let (a, b) = (self.users[0], self.users[1]);
            for tok in [BSEI, STSEI] {
                let bal = o.tok_bal(tok, a);
                if bal > 0 {
                    v.push(transfer(a, b, tok, (bal / 2).max(1)));
                }
            }
        }
        v.push(check_slashing(CAROL));
        if self.with_burn_from {
            v.push(burn_from(DAVE, ALICE, BSEI, 7));
            v.push(burn_from(DAVE, BOB, STSEI, 7));
        }
        if self.with_rewards {
            v.push(update_index(UPDATER));
            for (val, den, amt) in &self.reward_amounts {
                v.push(accrue(val, den, *amt));
            }
        }
        if self.with_registry {
            for val in ["val1", "val2", "val3"] {
                if o.registry.iter().any(|x| x == val) {
                    v.push(remove_validator(OWNER, val));
                } else {
                    v.push(add_validator(OWNER, val));
                    // the permissionless follow-up for stake that could not be moved at removal time, and the
                    // owner simply repeating the removal
                    if c.delegation(HUB, val) > 0 {
                        v.push(exec(format!("redelegations({})", val), EVE, REG, serde_json::json!({"redelegations":{"address":val}}), &[]));
                        v.push(remove_validator(OWNER, val));
                    }
                }
            }
        }
        v.extend(time_actions(c, o, false));
        if g.budget > 0 {
            for (n, d) in &self.slash_fracs {
                v.push(slash_bonded("val1", *n, *d));
                v.push(slash_bonded("val2", *n, *d));
            }
            if !c.unbonding.is_empty() {
                v.push(slash_unbonding("val1", 1, 2));
            }
            v.push(rogue(CAROL, HUB, USEI, 5));
        }
        v
    }
    fn step(&self, pre: &Chain, po: &HubObs, g: &G, a: &Action, out: &Outcome, post: &Chain, qo: &HubObs, cx: &mut Cx) -> G {
        let g2 = G { budget: g.budget.saturating_sub(a.dev) };
        if self.arm.c02 {
            c02_step(pre, po, a, out, post, qo, cx);
        }
        if self.arm.c03 {
            c03_step(po, a, out, qo, cx);
        }
        if self.arm.c04 {
            c04_step(po, a, out, qo, cx);
        }
        if self.arm.c06 {
            c06_step(po, a, out, qo, cx);
        }
        if self.arm.c13 {
            c13_step(pre, po, a, out, post, qo, cx);
        }
        if self.arm.c19 {
            c19_step(pre, po, a, out, post, qo, cx);
        }
        if self.arm.c09 {
            c09_pair(pre, a, out, post, cx);
            c09_epoch_step(pre, po, a, out, qo, cx);
        }
        if self.arm.c12 {
            c12_step(pre, po, a, out, qo, cx);
        }
        if self.arm.c17 {
            c17_step(pre, po, a, out, post, cx);
        }
        if self.arm.c15 {
            c15_step(pre, po, a, out, post, cx);
        }
        g2
    }
    fn state(&self, c: &Chain, o: &HubObs, g: &G, cx: &mut Cx) {
        if self.arm.c11 {
            let acts = self.actions(c, o, g);
            crate::pause::c11_probe(c, o, &acts, cx);
        }
        if self.arm.c03 {
            c03_state(o, cx);
        }
        if self.arm.c06 {
            c06_state(o, cx);
        }
        if self.arm.c09 {
            c09_probe(c, o, cx);
        }
    }
}

// =============================================================================================
// helpers over the effects log

pub fn fx_has_hub_exec(fx: &[Fx], key: &str) -> bool {
    fx.iter().any(|e| matches!(e, Fx::Exec { contract, msg, .. } if contract == HUB && msg.get(key).is_some()))
}
pub fn fx_sum_delegate(fx: &[Fx]) -> u128 {
    fx.iter().map(|e| if let Fx::Delegate { amt, .. } = e { *amt } else { 0 }).sum()
}
pub fn fx_sum_undelegate(fx: &[Fx]) -> u128 {
    fx.iter().map(|e| if let Fx::Undelegate { amt, .. } = e { *amt } else { 0 }).sum()
}
pub fn fx_attr<'a>(fx: &'a [Fx], contract: &str, key: &str) -> Option<&'a str> {
    for e in fx {
        if let Fx::Attrs { contract: c, attrs } = e {
            if c == contract {
                for (k, v) in attrs {
                    if k == key {
                        return Some(v);
                    }
                }
            }
        }
    }
    None
}
/// hub pricing operations executed somewhere in the tx
pub fn is_pricing_tx(fx: &[Fx]) -> bool {
    ["bond", "bond_for_st_sei", "bond_rewards", "check_slashing", "receive"].iter().any(|k| fx_has_hub_exec(fx, k))
}

// =============================================================================================
// C02 — books never exceed delegations; bonds are delegated in full

fn c02_step(_pre: &Chain, po: &HubObs, a: &Action, out: &Outcome, _post: &Chain, qo: &HubObs, cx: &mut Cx) {
    if !out.ok() || out.is_env {
        return;
    }
    let fx = out.fx();
    // every bond-type execution delegates exactly its payment, to registered validators only (judged per
    // transaction and independent of the order in which the hub emits its messages)
    let mut pay = 0u128;
    let mut bond_execs = 0;
    for e in fx {
        if let Fx::Exec { contract, msg, funds, .. } = e {
            if contract == HUB && (msg.get("bond").is_some() || msg.get("bond_for_st_sei").is_some() || msg.get("bond_rewards").is_some()) {
                pay += funds.iter().filter(|(d, _)| d == USEI).map(|(_, a)| *a).sum::<u128>();
                bond_execs += 1;
            }
        }
    }
    let mut sum = 0u128;
    for e in fx {
        if let Fx::Delegate { val, amt, delegator } = e {
            if delegator == HUB {
                sum += *amt;
                if !qo.registry.iter().any(|r| r == val) {
                    cx.viol("C02.delegate_target", "delegation to unregistered validator", format!("{} delegated {} to {} not in registry {:?}", a.label, amt, val, qo.registry));
                }
            }
        }
    }
    if bond_execs > 0 {
        cx.trigger("c02_bond_delegation_checked");
        cx.validated();
    }
    if sum != pay {
        cx.viol("C02.delegate_sum", "delegate messages do not sum to the payment", format!("{}: payment {} delegated {}", a.label, pay, sum));
    }
    // liquid balance untouched by bond / convert / index update / slashing check
    let is_unbond = a.hub_hook().map(|h| h.0 == "unbond").unwrap_or(false);
    let is_withdraw = a.is(HUB, "withdraw_unbonded");
    let touches_hub = is_pricing_tx(fx) || fx_has_hub_exec(fx, "update_global_index");
    if touches_hub && !is_unbond && !is_withdraw {
        cx.trigger("c02_liquid_balance_checked");
        if po.hub_usei != qo.hub_usei {
            cx.viol("C02.liquid_balance", "hub liquid balance changed by a non-withdraw operation", format!("{}: {} -> {}", a.label, po.hub_usei, qo.hub_usei));
        }
    }
    if is_unbond {
        cx.count("c02_unbond_seen");
        if po.hub_usei != qo.hub_usei {
            cx.viol("C02.liquid_balance", "hub liquid balance changed by unbond", format!("{}: {} -> {}", a.label, po.hub_usei, qo.hub_usei));
        }
        // each batch undelegation removes from the books exactly what it undelegates
        let und = fx_sum_undelegate(fx);
        if und > 0 {
            cx.trigger("c02_batch_undelegation_checked");
            cx.validated();
            let before = po.books();
            let after = qo.stored_books();
            if before < after || before - after != und {
                cx.viol("C02.undelegate_books", "books not reduced by exactly the undelegated amount", format!("{}: books(view) {} -> stored {} undelegated {}", a.label, before, after, und));
            }
        } else if qo.stored_books() != po.books() {
            cx.viol("C02.undelegate_books", "books changed by an unbond that undelegated nothing", format!("{}: {} -> {}", a.label, po.books(), qo.stored_books()));
        }
    }
    // after every successful pricing operation: stored books <= actual delegations
    if is_pricing_tx(fx) {
        cx.trigger("c02_books_le_delegated_checked");
        if qo.stored_books() > qo.delegated {
            cx.viol("C02.books_le_delegated", "booked stake exceeds delegated stake after a pricing operation", format!("{}: stored books {} > delegated {}", a.label, qo.stored_books(), qo.delegated));
        }
    }
}

// =============================================================================================
// C03 — reported rates = backing / claims and price every mint / redeem

pub fn expected_rate(bond: u128, claims: u128) -> Decimal {
    if bond == 0 || claims == 0 {
        Decimal::one()
    } else {
        ratio(bond, claims).unwrap_or(Decimal::MAX)
    }
}

fn c03_state(o: &HubObs, cx: &mut Cx) {
    if o.delegated == 0 || o.books() == 0 {
        cx.count("c03_state_skipped_nothing_bonded");
        return;
    }
    cx.count("c03_state_rates_checked");
    let eb = expected_rate(o.state.total_bond_bsei_amount.u128(), o.b_claims());
    let es = expected_rate(o.state.total_bond_stsei_amount.u128(), o.st_claims());
    if eb != o.state.bsei_exchange_rate {
        cx.viol("C03.rate_consistency", "bsei rate != bond/claims", format!("reported {} expected {} (bond {} supply {} pending {})", o.state.bsei_exchange_rate, eb, o.state.total_bond_bsei_amount, o.bsei_supply, o.batch.requested_bsei_with_fee));
    }
    if es != o.state.stsei_exchange_rate {
        cx.viol("C03.rate_consistency", "stsei rate != bond/claims", format!("reported {} expected {} (bond {} supply {} pending {})", o.state.stsei_exchange_rate, es, o.state.total_bond_stsei_amount, o.stsei_supply, o.batch.requested_stsei));
    }
}

fn fee_applies(po: &HubObs) -> bool {
    po.bsei_rate_derived() < po.params.er_threshold
}

fn c03_step(po: &HubObs, a: &Action, out: &Outcome, qo: &HubObs, cx: &mut Cx) {
    if out.is_env {
        return;
    }
    let bonded = po.delegated > 0 && po.books() > 0;
    // the pre-state rates as C03 defines them (c03_state compares the reported ones with these in every state)
    let brate = po.bsei_rate_derived();
    let srate = po.stsei_rate_derived();
    let peg = po.params.peg_recovery_fee;
    let fx = out.fx();
    // zero payment never mints
    if (a.is(HUB, "bond") || a.is(HUB, "bond_for_st_sei")) && a.funds_of(USEI) == 0 {
        cx.trigger("c03_zero_payment");
        if out.ok() || qo.bsei_supply != po.bsei_supply || qo.stsei_supply != po.stsei_supply {
            cx.viol("C03.zero_payment", "bond without payment accepted", a.label.clone());
        }
        return;
    }
    if !out.ok() {
        return;
    }
    let u = a.sender().to_string();
    if a.is(HUB, "bond") {
        let pay = a.funds_of(USEI);
        let minted = qo.tok_bal(BSEI, &u) as i128 - po.tok_bal(BSEI, &u) as i128;
        let dsupply = qo.bsei_supply as i128 - po.bsei_supply as i128;
        let rate = brate;
        let Some(nofee) = div_dec(pay, rate) else { return };
        cx.trigger("c03_bond_mint_checked");
        cx.validated();
        let lo = if fee_applies(po) { nofee - mul_dec(nofee, peg) } else { nofee };
        if minted != dsupply || minted < lo as i128 || minted > nofee as i128 {
            cx.viol("C03.bond_mint", "bond minted amount != floor(payment/rate) less peg fee", format!("{}: rate {} minted {} supply delta {} expected [{},{}]", a.label, rate, minted, dsupply, lo, nofee));
        }
        if qo.stsei_supply != po.stsei_supply {
            cx.viol("C03.bond_mint", "bond changed the stsei supply", a.label.clone());
        }
    } else if a.is(HUB, "bond_for_st_sei") {
        let pay = a.funds_of(USEI);
        let minted = qo.tok_bal(STSEI, &u) as i128 - po.tok_bal(STSEI, &u) as i128;
        let dsupply = qo.stsei_supply as i128 - po.stsei_supply as i128;
        let Some(exp) = div_dec(pay, srate) else { return };
        cx.trigger("c03_bondst_mint_checked");
        cx.validated();
        if minted != dsupply || minted != exp as i128 {
            cx.viol("C03.bondst_mint", "stsei minted amount != floor(payment/rate)", format!("{}: rate {} minted {} supply delta {} expected {}", a.label, srate, minted, dsupply, exp));
        }
        if qo.bsei_supply != po.bsei_supply {
            cx.viol("C03.bondst_mint", "bond_for_st_sei changed the bsei supply", a.label.clone());
        }
    } else if let Some((hookname, amt, owner)) = a.hub_hook() {
        let (_, tok, _) = a.exec_parts().unwrap();
        if hookname == "convert" {
            cx.validated();
            if tok == STSEI {
                let coin = mul_dec(amt, srate);
                let Some(nofee) = div_dec(coin, brate) else { return };
                let lo = if fee_applies(po) { nofee - mul_dec(nofee, peg) } else { nofee };
                let minted = qo.tok_bal(BSEI, &owner) as i128 - po.tok_bal(BSEI, &owner) as i128;
                let burned = po.stsei_supply as i128 - qo.stsei_supply as i128;
                cx.trigger("c03_convert_st_to_b_checked");
                if minted < lo as i128 || minted > nofee as i128 || burned != amt as i128 || (qo.bsei_supply as i128 - po.bsei_supply as i128) != minted {
                    cx.viol("C03.convert_st_b", "convert stsei->bsei not priced floor(floor(t*src)/dst)", format!("{}: rates st {} b {} coin {} minted {} expected [{},{}] burned {}", a.label, srate, brate, coin, minted, lo, nofee, burned));
                }
                // books move by exactly the coin value
                let db = qo.stored.total_bond_bsei_amount.u128() as i128 - po.state.total_bond_bsei_amount.u128() as i128;
                let ds = po.state.total_bond_stsei_amount.u128() as i128 - qo.stored.total_bond_stsei_amount.u128() as i128;
                if db != coin as i128 || ds != coin as i128 {
                    cx.viol("C03.convert_st_b", "convert moved a different coin value between the pools", format!("{}: coin {} bsei pool +{} stsei pool -{}", a.label, coin, db, ds));
                }
            } else {
                let maxfee = if fee_applies(po) { mul_dec(amt, peg) } else { 0 };
                let hi = div_dec(mul_dec(amt, brate), srate);
                let lo = div_dec(mul_dec(amt - maxfee.min(amt), brate), srate);
                let (Some(hi), Some(lo)) = (hi, lo) else { return };
                let minted = qo.tok_bal(STSEI, &owner) as i128 - po.tok_bal(STSEI, &owner) as i128;
                let burned = po.bsei_supply as i128 - qo.bsei_supply as i128;
                cx.trigger("c03_convert_b_to_st_checked");
                if minted < lo as i128 || minted > hi as i128 || burned != amt as i128 || (qo.stsei_supply as i128 - po.stsei_supply as i128) != minted {
                    cx.viol("C03.convert_b_st", "convert bsei->stsei not priced floor(floor(t*src)/dst)", format!("{}: rates b {} st {} minted {} expected [{},{}] burned {}", a.label, brate, srate, minted, lo, hi, burned));
                }
                let db = po.state.total_bond_bsei_amount.u128() as i128 - qo.stored.total_bond_bsei_amount.u128() as i128;
                let ds = qo.stored.total_bond_stsei_amount.u128() as i128 - po.state.total_bond_stsei_amount.u128() as i128;
                // the coin value that left the bsei pool must price the minted stsei: minted = floor(coin/st_rate)
                if db != ds || db < 0 || div_dec(db as u128, srate).map(|m| m as i128) != Some(minted) {
                    cx.viol("C03.convert_b_st", "coin value moved between the pools does not price the minted stsei", format!("{}: bsei pool -{} stsei pool +{} minted {}", a.label, db, ds, minted));
                }
            }
        } else if hookname == "unbond" {
            let und = fx_sum_undelegate(fx);
            if und > 0 {
                // batch closed: undelegated = floor(req_st*rate) + floor(req_b*rate) at the recorded rates
                let id = po.batch.id;
                let Some(h) = qo.hist(id) else {
                    cx.viol("C03.batch_close", "undelegation without a history entry", a.label.clone());
                    return;
                };
                cx.trigger("c03_batch_close_checked");
                cx.validated();
                let exp = mul_dec(h.stsei_amount.u128(), h.stsei_applied_exchange_rate) + mul_dec(h.bsei_amount.u128(), h.bsei_applied_exchange_rate);
                if exp != und {
                    cx.viol("C03.batch_close", "undelegated amount != requests valued at recorded rates", format!("{}: undelegated {} expected {}", a.label, und, exp));
                }
                // recorded rates are the pool rates of the moment: st unchanged from the pre-state view,
                // bsei = bond / (claims - fee burnt by this very unbond)
                // what this unbond was credited after the peg fee: the closed batch's total minus what was pending before
                // (read from the history and CurrentBatch queries, not from response attributes)
                let unbonded: u128 = if tok == BSEI { h.bsei_amount.u128().saturating_sub(po.batch.requested_bsei_with_fee.u128()) } else { amt };
                let fee = amt - unbonded.min(amt);
                let exp_b = if tok == BSEI { expected_rate(po.state.total_bond_bsei_amount.u128(), po.b_claims() - fee) } else { brate };
                // a pool without booked stake redeems at zero (its reported rate 1 is only nominal)
                let srate = if po.state.total_bond_stsei_amount.is_zero() { Decimal::zero() } else { srate };
                let exp_b = if po.state.total_bond_bsei_amount.is_zero() { Decimal::zero() } else { exp_b };
                if bonded && (h.stsei_applied_exchange_rate != srate || h.bsei_applied_exchange_rate != exp_b) {
                    cx.viol("C03.batch_close", "recorded rates differ from the pool rates at undelegation", format!("{}: recorded st {} b {} expected st {} b {}", a.label, h.stsei_applied_exchange_rate, h.bsei_applied_exchange_rate, srate, exp_b));
                }
            }
        }
    }
}

// =============================================================================================
// C04 — a rate falls only through slashing

fn c04_step(po: &HubObs, a: &Action, out: &Outcome, qo: &HubObs, cx: &mut Cx) {
    if matches!(a.op, Op::SlashBonded { .. } | Op::SlashUnbonding { .. }) {
        return;
    }
    let meaningful = |o: &HubObs| o.delegated > 0 && o.books() > 0;
    if !meaningful(po) || !meaningful(qo) {
        cx.count("c04_skipped_nothing_bonded");
        return;
    }
    // A pool whose booked stake is zero reports the definitional rate 1 (C03: "1 when either is zero");
    // that value is not a backing ratio, so it is not compared. What is checked instead: backing never
    // vanishes from under existing claims except by slashing.
    let (pb, qb) = (po.state.total_bond_bsei_amount.u128(), qo.state.total_bond_bsei_amount.u128());
    let (ps, qs) = (po.state.total_bond_stsei_amount.u128(), qo.state.total_bond_stsei_amount.u128());
    if (pb > 0 && qb == 0 && po.b_claims() > 0 && qo.b_claims() > 0) || (ps > 0 && qs == 0 && po.st_claims() > 0 && qo.st_claims() > 0) {
        cx.viol("C04.backing_vanished", format!("pool backing dropped to zero under remaining claims by {}", action_class(a)), format!("{}: bsei {}->{} stsei {}->{}", a.label, pb, qb, ps, qs));
    }
    if po.b_claims() > 0 && qo.b_claims() > 0 && pb > 0 && qb > 0 {
        cx.trigger("c04_bsei_rate_compared");
        cx.validated();
        if out.ok() && (a.is(BSEI, "burn_from") || a.is(STSEI, "burn_from")) {
            cx.count("c04_allowance_burn_compared");
        }
        // the reported rate and the rate as C03 defines it (backing over claims) must both not fall
        if qo.state.bsei_exchange_rate < po.state.bsei_exchange_rate || expected_rate(qb, qo.b_claims()) < expected_rate(pb, po.b_claims()) {
            cx.viol("C04.rate_monotone", format!("bsei rate lowered by {}", action_class(a)), format!("{}: {} -> {} (bond {}->{} claims {}->{})", a.label, po.state.bsei_exchange_rate, qo.state.bsei_exchange_rate, po.state.total_bond_bsei_amount, qo.state.total_bond_bsei_amount, po.b_claims(), qo.b_claims()));
        }
    }
    if po.st_claims() > 0 && qo.st_claims() > 0 && ps > 0 && qs > 0 {
        cx.trigger("c04_stsei_rate_compared");
        if qo.state.stsei_exchange_rate < po.state.stsei_exchange_rate || expected_rate(qs, qo.st_claims()) < expected_rate(ps, po.st_claims()) {
            cx.viol("C04.rate_monotone", format!("stsei rate lowered by {}", action_class(a)), format!("{}: {} -> {} (bond {}->{} claims {}->{})", a.label, po.state.stsei_exchange_rate, qo.state.stsei_exchange_rate, po.state.total_bond_stsei_amount, qo.state.total_bond_stsei_amount, po.st_claims(), qo.st_claims()));
        }
    }
    // re-bonding rewards raises the stsei rate and mints nothing
    if out.ok() && fx_has_hub_exec(out.fx(), "bond_rewards") {
        cx.trigger("c04_rebond_checked");
        if qo.stsei_supply != po.stsei_supply || qo.bsei_supply != po.bsei_supply {
            cx.viol("C04.rebond_mints", "reward re-bonding changed a token supply", a.label.clone());
        }
        if po.st_claims() > 0 && ps > 0 && qo.state.stsei_exchange_rate <= po.state.stsei_exchange_rate {
            cx.viol("C04.rebond_rate", "reward re-bonding did not raise the stsei rate", format!("{}: {} -> {}", a.label, po.state.stsei_exchange_rate, qo.state.stsei_exchange_rate));
        }
    }
}

pub fn action_class(a: &Action) -> String {
    a.label.split('(').next().unwrap_or("?").to_string()
}

// =============================================================================================
// C06 — slashing recognised exactly, pro rata

fn c06_state(o: &HubObs, cx: &mut Cx) {
    // the State query is the recognition function itself (it is what every pricing operation stores)
    let sb = o.stored.total_bond_bsei_amount.u128();
    let ss = o.stored.total_bond_stsei_amount.u128();
    let booked = sb + ss;
    if o.delegated == 0 || booked == 0 {
        return;
    }
    let vb = o.state.total_bond_bsei_amount.u128();
    let vs = o.state.total_bond_stsei_amount.u128();
    if o.delegated < booked {
        cx.trigger("c06_unrecognised_slash_state");
        cx.validated();
        if vb + vs != o.delegated {
            cx.viol("C06.recognise_exact", "recognised books != surviving delegation", format!("view {}+{} delegated {}", vb, vs, o.delegated));
        }
        let eb = muldiv(sb, o.delegated, booked);
        let es = muldiv(ss, o.delegated, booked);
        if vb.abs_diff(eb) > 2 || vs.abs_diff(es) > 2 {
            cx.viol("C06.pro_rata", "pools not reduced in proportion", format!("stored {}/{} delegated {} view {}/{} expected {}/{}", sb, ss, o.delegated, vb, vs, eb, es));
        }
        if (sb == 0 && vb != 0) || (ss == 0 && vs != 0) {
            cx.viol("C06.pro_rata", "empty pool received stake", format!("stored {}/{} view {}/{}", sb, ss, vb, vs));
        }
    } else {
        cx.count("c06_no_slash_state");
        if vb != sb || vs != ss {
            cx.viol("C06.never_raise", "check changes pools although delegation >= books", format!("stored {}/{} view {}/{} delegated {}", sb, ss, vb, vs, o.delegated));
        }
    }
}

fn c06_step(po: &HubObs, a: &Action, out: &Outcome, qo: &HubObs, cx: &mut Cx) {
    if !out.ok() || out.is_env {
        return;
    }
    let fx = out.fx();
    if !is_pricing_tx(fx) {
        return;
    }
    let slashed = po.delegated < po.stored_books();
    let vb = po.state.total_bond_bsei_amount.u128() as i128;
    let vs = po.state.total_bond_stsei_amount.u128() as i128;
    let qb = qo.stored.total_bond_bsei_amount.u128() as i128;
    let qs = qo.stored.total_bond_stsei_amount.u128() as i128;
    // the operation's own effect on the pools
    let (mut db, mut ds): (i128, i128) = (0, 0);
    let mut known = true;
    if a.is(HUB, "bond") {
        db = a.funds_of(USEI) as i128;
    } else if a.is(HUB, "bond_for_st_sei") {
        ds = a.funds_of(USEI) as i128;
    } else if a.is(HUB, "check_slashing") || a.is(BSEI, "burn_from") || a.is(STSEI, "burn_from") {
    } else if let Some((hookname, amt, _)) = a.hub_hook() {
        let tok = a.exec_parts().unwrap().1;
        if hookname == "unbond" {
            let und = fx_sum_undelegate(fx) as i128;
            if und > 0 {
                if let Some(h) = qo.hist(po.batch.id) {
                    db = -(mul_dec(h.bsei_amount.u128(), h.bsei_applied_exchange_rate) as i128);
                    ds = -(mul_dec(h.stsei_amount.u128(), h.stsei_applied_exchange_rate) as i128);
                }
            }
        } else if tok == STSEI {
            let coin = mul_dec(amt, po.state.stsei_exchange_rate) as i128;
            db = coin;
            ds = -coin;
        } else {
            // coin value depends on the fee; take the observed stsei-side delta and require symmetry
            let moved = qs - vs;
            db = -moved;
            ds = moved;
        }
    } else if fx_has_hub_exec(fx, "bond_rewards") || fx_has_hub_exec(fx, "update_global_index") {
        // index update (directly or through a validator removal): the stSei pool grows by the re-bonded rewards
        ds = fx
            .iter()
            .map(|e| match e {
                Fx::Exec { contract, msg, funds, .. } if contract == HUB && msg.get("bond_rewards").is_some() => funds.iter().filter(|(d, _)| d == USEI).map(|(_, a)| *a as i128).sum(),
                _ => 0,
            })
            .sum();
    } else {
        known = false;
    }
    if !known {
        return;
    }
    if slashed {
        cx.trigger("c06_recognising_op");
    } else {
        cx.trigger("c06_op_without_slash");
    }
    cx.validated();
    if qb != vb + db || qs != vs + ds {
        cx.viol(
            if slashed { "C06.recognise_store" } else { "C06.never_raise" },
            format!("stored pools after {} != recognised pools + own delta", action_class(a)),
            format!("{}: view pre {}/{} delta {}/{} stored post {}/{} (slashed={})", a.label, vb, vs, db, ds, qb, qs, slashed),
        );
    }
}

// =============================================================================================
// C13 — removing a validator moves its whole stake

fn c13_step(pre: &Chain, po: &HubObs, a: &Action, out: &Outcome, post: &Chain, qo: &HubObs, cx: &mut Cx) {
    if a.is(REG, "redelegations") && out.ok() {
        // the manual follow-up obeys the same rule: when the chain allows it, the whole stake moves to registered validators
        let v = a.exec_parts().unwrap().2["redelegations"]["address"].as_str().unwrap_or("").to_string();
        let had = pre.delegation(HUB, &v);
        if had > 0 && pre.can_redelegate(HUB, &v) >= had && !po.registry.iter().any(|x| *x == v) && !po.registry.is_empty() {
            cx.trigger("c13_redelegations_followup_checked");
            let moved: u128 = out.fx().iter().map(|e| if let Fx::Redelegate { src, amt, .. } = e { if *src == v { *amt } else { 0 } } else { 0 }).sum();
            let bad_dst = out.fx().iter().any(|e| matches!(e, Fx::Redelegate { dst, .. } if !qo.registry.iter().any(|x| x == dst)));
            if moved != had || post.delegation(HUB, &v) != 0 || bad_dst {
                cx.viol("C13.redelegate", "Redelegations did not move the whole stake of the unregistered validator to registered ones", format!("{}: had {} moved {} left {}", a.label, had, moved, post.delegation(HUB, &v)));
            }
        }
        return;
    }
    if out.ok() && (a.is(HUB, "bond") || a.is(HUB, "bond_for_st_sei")) {
        // subsequent bonds are delegated only to registered validators
        cx.trigger("c13_bond_targets_checked");
        for e in out.fx() {
            if let Fx::Delegate { val, .. } = e {
                if !qo.registry.iter().any(|r| r == val) {
                    cx.viol("C13.bond_targets", "a bond was delegated to a validator that is not registered", format!("{}: {} not in {:?}", a.label, val, qo.registry));
                }
            }
        }
        return;
    }
    if !a.is(REG, "remove_validator") {
        return;
    }
    let (sender, _, m) = a.exec_parts().unwrap();
    let v = m["remove_validator"]["address"].as_str().unwrap_or("").to_string();
    if sender != OWNER {
        return;
    }
    let was_last = po.registry.len() == 1 && po.registry[0] == v;
    if was_last || (po.registry.is_empty()) {
        cx.trigger("c13_last_validator");
        if out.ok() {
            cx.viol("C13.last_validator", "last validator removed", a.label.clone());
        }
        return;
    }
    if !out.ok() {
        // within the envelope a removal by the owner may fail only because the index update inside it fails
        cx.count("c13_removal_failed");
        return;
    }
    cx.trigger("c13_removal_checked");
    cx.validated();
    let fx = out.fx();
    if qo.registry.iter().any(|x| *x == v) {
        cx.viol("C13.unregistered", "validator still registered after removal", a.label.clone());
    }
    if qo.registry.is_empty() {
        cx.viol("C13.last_validator", "registry empty after removal", a.label.clone());
    }
    let had = pre.delegation(HUB, &v);
    let can = pre.can_redelegate(HUB, &v);
    let rebonded: u128 = fx
        .iter()
        .map(|e| match e {
            Fx::Exec { contract, msg, funds, .. } if contract == HUB && msg.get("bond_rewards").is_some() => funds.iter().filter(|(d, _)| d == USEI).map(|(_, a)| *a).sum(),
            _ => 0,
        })
        .sum();
    if had > 0 && can >= had {
        cx.trigger("c13_redelegation_checked");
        let mut sum = 0u128;
        for e in fx {
            if let Fx::Redelegate { src, dst, amt, .. } = e {
                sum += *amt;
                if *src != v {
                    cx.viol("C13.redelegate", "redelegation from another validator", format!("{}: {}", a.label, src));
                }
                if !qo.registry.iter().any(|x| x == dst) {
                    cx.viol("C13.redelegate", "redelegation to an unregistered validator", format!("{}: {}", a.label, dst));
                }
            }
        }
        if sum != had {
            cx.viol("C13.redelegate", "redelegated amount != whole delegation on the removed validator", format!("{}: had {} redelegated {}", a.label, had, sum));
        }
        // nothing stays, except rewards re-bonded afterwards never go to v (not registered)
        if post.delegation(HUB, &v) != 0 {
            cx.viol("C13.redelegate", "stake left on the removed validator", format!("{}: {}", a.label, post.delegation(HUB, &v)));
        }
    } else if had > 0 {
        cx.trigger("c13_redelegation_blocked");
        if fx.iter().any(|e| matches!(e, Fx::Redelegate { .. })) {
            cx.viol("C13.redelegate", "redelegation attempted although the chain forbids it", a.label.clone());
        }
    }
    // total delegated changes only by the re-bonded rewards
    let d_pre = po.delegated as i128;
    let d_post = qo.delegated as i128;
    if d_post - d_pre != rebonded as i128 {
        cx.viol("C13.total_stake", "total delegated stake changed by something other than re-bonded rewards", format!("{}: {} -> {} rebonded {}", a.label, d_pre, d_post, rebonded));
    }
    // delegated minus booked unchanged (books as the State query reports them, i.e. with slashing recognised)
    let gap_pre = po.delegated as i128 - po.books() as i128;
    let gap_post = qo.delegated as i128 - qo.books() as i128;
    if gap_pre != gap_post {
        cx.viol("C13.books_gap", "delegated minus booked stake changed by a validator removal", format!("{}: {} -> {}", a.label, gap_pre, gap_post));
    }
}

// =============================================================================================
// C19 — a global index update delivers all staking rewards to the right parties

fn zero_send_sig(e: &str) -> Option<String> {
    let i = e.find("zero amount of ")?;
    let rest = &e[i + "zero amount of ".len()..];
    let mut it = rest.split_whitespace();
    let denom = it.next()?;
    let _ = it.next()?;
    let from = it.next()?;
    let _ = it.next()?;
    let to = it.next()?;
    Some(format!("zero-coin bank send {}->{} denom={}", from, to, denom))
}

fn c19_step(pre: &Chain, po: &HubObs, a: &Action, out: &Outcome, post: &Chain, qo: &HubObs, cx: &mut Cx) {
    let direct = a.is(HUB, "update_global_index") && a.sender() == UPDATER;
    let via_registry = a.is(REG, "remove_validator") && a.sender() == OWNER;
    if !direct && !via_registry {
        return;
    }
    if po.delegated == 0 || po.books() == 0 {
        cx.count("c19_skipped_nothing_bonded");
        return;
    }
    if !out.ok() {
        if via_registry && (out.err().starts_with("registry:") || out.err().starts_with("staking:")) {
            return; // the removal itself was refused (last validator, ...) or the chain refused the redelegation
        }
        cx.trigger("c19_update_failed");
        let e = out.err();
        let sig = zero_send_sig(e).unwrap_or_else(|| format!("UpdateGlobalIndex fails: {}", crate::unbondlc::classify_err(e)));
        cx.viol("C19.executes", sig, format!("{}: pending {:?}: {}", a.label, pre.pending_total(HUB), e));
        return;
    }
    let fx = out.fx();
    if !fx_has_hub_exec(fx, "update_global_index") {
        return; // removal without an index update (nothing delegated on the validator, or redelegation blocked)
    }
    cx.trigger("c19_update_checked");
    cx.validated();
    let pend = pre.pending_total(HUB);
    if pend.values().any(|x| *x > 0) {
        cx.count("c19_update_with_pending_rewards");
    }
    if via_registry {
        cx.count("c19_update_via_registry");
    }
    // rewards withdrawn from every validator the hub delegates to at that moment
    let vals: Vec<String> = if via_registry {
        post.deleg.keys().filter(|(d, _)| d == HUB).map(|(_, v)| v.clone()).collect()
    } else {
        pre.deleg.keys().filter(|(d, _)| d == HUB).map(|(_, v)| v.clone()).collect()
    };
    for v in &vals {
        let got = fx.iter().any(|e| matches!(e, Fx::WithdrawReward { val, delegator, .. } if val == v && delegator == HUB));
        if !got && !via_registry {
            cx.viol("C19.withdraw_all", "no reward withdrawal for a validator the hub delegates to", format!("{}: {}", a.label, v));
        }
    }
    if post.pending_total(HUB).values().any(|x| *x > 0) {
        cx.viol("C19.withdraw_all", "staking rewards left pending after the update", format!("{}: {:?}", a.label, post.pending_total(HUB)));
    }
    if post.bal(DISP, USEI) != 0 || post.bal(DISP, KUSD) != 0 {
        cx.viol("C19.nothing_left", "reward coins left behind in the dispatcher", format!("{}: {} usei {} kusd", a.label, post.bal(DISP, USEI), post.bal(DISP, KUSD)));
    }
    // untouched: liquid balance, token balances and supplies, unbonders' claims
    if po.hub_usei != qo.hub_usei || post.bal(HUB, KUSD) != pre.bal(HUB, KUSD) {
        cx.viol("C19.untouched", "hub liquid balance changed by an index update", format!("{}: {} -> {}", a.label, po.hub_usei, qo.hub_usei));
    }
    if po.bsei_bal != qo.bsei_bal || po.stsei_bal != qo.stsei_bal || po.bsei_supply != qo.bsei_supply || po.stsei_supply != qo.stsei_supply {
        cx.viol("C19.untouched", "token balances or supplies changed by an index update", a.label.clone());
    }
    if po.requests != qo.requests || po.history != qo.history || po.batch != qo.batch {
        cx.viol("C19.untouched", "unbond claims or batches changed by an index update", a.label.clone());
    }
    // split: keeper fee, bSei share to the reward contract, stSei share re-bonded
    let rate: cosmwasm_std::Decimal = {
        let cfg: basset::dispatcher::ConfigResponse = pre.query(DISP, &basset_sei_rewards_dispatcher::msg::QueryMsg::Config {}).expect("dispatcher config");
        cfg.krp_keeper_rate
    };
    let ku = post.bal(KEEPER, USEI) - pre.bal(KEEPER, USEI);
    let kk = post.bal(KEEPER, KUSD) - pre.bal(KEEPER, KUSD);
    let to_reward = post.bal(REWARD, KUSD) - pre.bal(REWARD, KUSD);
    let rebonded: u128 = fx
        .iter()
        .map(|e| match e {
            Fx::Exec { contract, msg, funds, .. } if contract == HUB && msg.get("bond_rewards").is_some() => funds.iter().filter(|(d, _)| d == USEI).map(|(_, a)| *a).sum(),
            _ => 0,
        })
        .sum();
    if ku != mul_dec(ku + rebonded, rate) || kk != mul_dec(kk + to_reward, rate) {
        cx.viol("C19.keeper_fee", "keeper did not receive floor(share x rate)", format!("{}: keeper {} usei {} kusd, rebonded {}, to reward {}, rate {}", a.label, ku, kk, rebonded, to_reward, rate));
    }
    if (qo.delegated as i128 - po.delegated as i128) != rebonded as i128 {
        cx.viol("C19.rebond", "delegated stake did not grow by exactly the re-bonded amount", format!("{}: {} -> {} rebonded {}", a.label, po.delegated, qo.delegated, rebonded));
    }
    if !via_registry {
        split_by_stake(pre, po, a, &pend, ku + rebonded, "C19.split_by_stake", cx);
    }
    // stSei rate rises by exactly rebonded / (supply + pending); bSei rate untouched
    let st_pre = po.state.total_bond_stsei_amount.u128();
    let exp_st = expected_rate(st_pre + rebonded, po.st_claims());
    if qo.state.total_bond_stsei_amount.u128() != st_pre + rebonded || qo.state.stsei_exchange_rate != exp_st {
        cx.viol("C19.stsei_rate", "stSei pool/rate after the update != (pool + re-bonded) / claims", format!("{}: pool {} -> {} rebonded {} rate {} expected {}", a.label, st_pre, qo.state.total_bond_stsei_amount, rebonded, qo.state.stsei_exchange_rate, exp_st));
    }
    if qo.state.total_bond_bsei_amount != po.state.total_bond_bsei_amount || qo.state.bsei_exchange_rate != po.state.bsei_exchange_rate {
        cx.viol("C19.bsei_rate", "bSei pool or rate changed by an index update", format!("{}: {} {} -> {} {}", a.label, po.state.total_bond_bsei_amount, po.state.bsei_exchange_rate, qo.state.total_bond_bsei_amount, qo.state.bsei_exchange_rate));
    }
    // bSei holders' claimable rewards grow by what reached the reward contract (within dust)
    let r0 = crate::reward::RObs::new(pre);
    let r1 = crate::reward::RObs::new(post);
    if r0.supply > 0 {
        let grow = r1.total_accrued_fp() - r0.total_accrued_fp();
        let undistributed = cosmwasm_std::Uint256::from(r0.bank.saturating_sub(r0.state.prev_reward_balance.u128()));
        let hi = (cosmwasm_std::Uint256::from(to_reward) + undistributed) * cosmwasm_std::Uint256::from(ONE);
        let dust = cosmwasm_std::Uint256::from(r0.supply);
        if to_reward > 0 {
            cx.count("c19_rewards_reached_bsei_holders");
        }
        if grow > hi || grow + dust < hi {
            cx.viol("C19.holders_accrue", "bSei holders' total claimable reward did not grow by the delivered amount", format!("{}: grew {} delivered {} (1e-18 units) dust {}", a.label, grow, hi, dust));
        }
        // independent of the reward contract's own books: after an update with holders, everything the
        // reward contract holds is claimable by somebody (up to accumulated dust)
        let held = cosmwasm_std::Uint256::from(r1.bank) * cosmwasm_std::Uint256::from(ONE);
        let claimable = r1.total_accrued_fp();
        if held > claimable + cosmwasm_std::Uint256::from(64u128 * ONE) {
            cx.viol("C19.holders_accrue", "reward coins in the reward contract are claimable by nobody after an index update", format!("{}: held {} claimable {} (1e-18 units)", a.label, held, claimable));
        }
    }
}

/// the split follows the booked stake of the two pools (as the State query reports them before the update)
fn split_by_stake(pre: &Chain, po: &HubObs, a: &Action, pend: &std::collections::BTreeMap<String, u128>, got: u128, oracle: &str, cx: &mut Cx) {
    let price = pre.price_dec();
    let inv = cosmwasm_std::Fraction::inv(&price).unwrap_or(cosmwasm_std::Decimal::zero());
    let pu = pend.get(USEI).copied().unwrap_or(0) + pre.bal(DISP, USEI);
    let pk = pend.get(KUSD).copied().unwrap_or(0) + pre.bal(DISP, KUSD);
    // the booked stake as stored and as the State query recognises it (they differ only while a slash is
    // unrecognised, and then only by the rounding of the pro-rata recognition): either weighting is accepted
    let (st, b) = (po.state.total_bond_stsei_amount.u128(), po.state.total_bond_bsei_amount.u128());
    let (st2, b2) = (po.stored.total_bond_stsei_amount.u128(), po.stored.total_bond_bsei_amount.u128());
    if st + b > 0 && st2 + b2 > 0 {
        let total_in_usei = pu + mul_dec(pk, inv);
        let s1 = muldiv(total_in_usei, st, st + b);
        let s2 = muldiv(total_in_usei, st2, st2 + b2);
        let tol = 3 + mul_dec(1, inv) + 1;
        cx.count("c19_split_checked");
        if st * (po.st_claims()) != 0 && st != po.st_claims() {
            cx.count("c19_split_with_stsei_rate_off_par");
        }
        if got + tol < s1.min(s2) || got > s1.max(s2) + tol {
            cx.viol(oracle, "stSei-side share of the rewards differs from total x stSei bonded / total bonded", format!("{}: pending {} usei {} kusd, pools st {} b {} (stored {} {}): stSei side got {} expected {}..{} (tolerance {})", a.label, pu, pk, st, b, st2, b2, got, s1.min(s2), s1.max(s2), tol));
        }
    }
}

/// C17 seen from the hub: the stSei side (keeper fee included) of a complete UpdateGlobalIndex
fn c17_step(pre: &Chain, po: &HubObs, a: &Action, out: &Outcome, post: &Chain, cx: &mut Cx) {
    if !(a.is(HUB, "update_global_index") && a.sender() == UPDATER) || !out.ok() || po.delegated == 0 || po.books() == 0 {
        return;
    }
    let fx = out.fx();
    let pend = pre.pending_total(HUB);
    let ku = post.bal(KEEPER, USEI) - pre.bal(KEEPER, USEI);
    let rebonded: u128 = fx
        .iter()
        .map(|e| match e {
            Fx::Exec { contract, msg, funds, .. } if contract == HUB && msg.get("bond_rewards").is_some() => funds.iter().filter(|(d, _)| d == USEI).map(|(_, a)| *a).sum(),
            _ => 0,
        })
        .sum();
    cx.trigger("c17_hub_split_checked");
    cx.validated();
    split_by_stake(pre, po, a, &pend, ku + rebonded, "C17.split_by_stake", cx);
}

/// C15 on the real pipeline: an UpdateGlobalIndex that delivers D reward coins to the reward contract lets every holder
/// accrue balance x D / supply (balances as the bSei token reports them before the update), within sub-unit rounding
fn c15_step(pre: &Chain, po: &HubObs, a: &Action, out: &Outcome, post: &Chain, cx: &mut Cx) {
    if !(a.is(HUB, "update_global_index") && a.sender() == UPDATER) || !out.ok() || po.delegated == 0 || po.books() == 0 {
        return;
    }
    let r0 = crate::reward::RObs::new(pre);
    let r1 = crate::reward::RObs::new(post);
    if r0.supply == 0 {
        return;
    }
    let to_reward = post.bal(REWARD, KUSD) - pre.bal(REWARD, KUSD);
    let undistributed = r0.bank.saturating_sub(r0.state.prev_reward_balance.u128());
    let d = cosmwasm_std::Uint256::from(to_reward + undistributed);
    cx.trigger("c15_pipeline_update_checked");
    cx.validated();
    if to_reward > 0 {
        cx.count("c15_pipeline_update_with_delivery");
    }
    let tol = cosmwasm_std::Uint256::from(r0.supply) + cosmwasm_std::Uint256::from(1u128);
    for (u, bal) in &r0.token_bal {
        let exp = cosmwasm_std::Uint256::from(*bal) * d * cosmwasm_std::Uint256::from(ONE) / cosmwasm_std::Uint256::from(r0.supply);
        let (x0, x1) = (r0.accrued_fp(u), r1.accrued_fp(u));
        let got = if x1 >= x0 { x1 - x0 } else { cosmwasm_std::Uint256::zero() };
        if x1 < x0 || got > exp + tol || got + tol < exp {
            cx.viol("C15.pipeline_accrual", "a holder's accrual from one index update differs from balance x delivered / supply", format!("{}: {} holds {} of {}; delivered {} (+{} undistributed); accrued {} -> {} expected growth {} (1e-18 units)", a.label, u, bal, r0.supply, to_reward, undistributed, x0, x1, exp));
        }
    }
}

// =============================================================================================
// C12 end to end — the plans as the hub turns them into staking messages

fn c12_step(pre: &Chain, po: &HubObs, a: &Action, out: &Outcome, qo: &HubObs, cx: &mut Cx) {
    if !out.ok() || out.is_env {
        return;
    }
    let fx = out.fx();
    if a.is(HUB, "bond") || a.is(HUB, "bond_for_st_sei") {
        // the list the plan is made for: the registered validators with the hub's delegations on them
        let n = po.registry.len() as u128;
        if n == 0 {
            return;
        }
        let pay = a.funds_of(USEI);
        let d: Vec<u128> = po.registry.iter().map(|v| pre.delegation(HUB, v)).collect();
        let total: u128 = d.iter().sum::<u128>() + pay;
        let ceil_share = (total + n - 1) / n;
        cx.trigger("c12_hub_delegation_plan_checked");
        cx.validated();
        if d.iter().any(|x| *x * n > total) {
            cx.count("c12_hub_bond_with_a_validator_above_the_share");
        }
        let mut sum = 0u128;
        for (i, v) in po.registry.iter().enumerate() {
            let got: u128 = fx.iter().map(|e| match e { Fx::Delegate { val, amt, delegator } if delegator == HUB && val == v => *amt, _ => 0 }).sum();
            sum += got;
            if got > 0 && d[i] * n > total {
                cx.viol("C12.delegate_above_share", "validator above the even share received stake", format!("{}: {} holds {} got {} total {} over {} validators", a.label, v, d[i], got, total, n));
            }
            if got > 0 && d[i] + got > ceil_share {
                cx.viol("C12.delegate_lift", "validator lifted above the even share rounded up", format!("{}: {} holds {} got {} ceil share {}", a.label, v, d[i], got, ceil_share));
            }
        }
        let all = fx_sum_delegate(fx);
        if sum != pay || all != pay {
            cx.viol("C12.delegate_conserve", "delegation plan does not distribute exactly the whole amount", format!("{}: payment {} delegated {} (to registered validators {})", a.label, pay, all, sum));
        }
        let _ = qo;
        return;
    }
    let is_unbond = a.hub_hook().map(|h| h.0 == "unbond").unwrap_or(false);
    if is_unbond && qo.batch.id != po.batch.id {
        // a batch was closed: the amount to remove is the requests valued at the rates recorded for the batch
        let h = match qo.hist(po.batch.id) {
            Some(h) => h,
            None => return,
        };
        let amount = mul_dec(h.stsei_amount.u128(), h.stsei_applied_exchange_rate) + mul_dec(h.bsei_amount.u128(), h.bsei_applied_exchange_rate);
        // the list the plan is made for: every delegation of the hub
        let vals: Vec<String> = pre.deleg.keys().filter(|(d, _)| d == HUB).map(|(_, v)| v.clone()).collect();
        let n = vals.len() as u128;
        let d: Vec<u128> = vals.iter().map(|v| pre.delegation(HUB, v)).collect();
        let sum: u128 = d.iter().sum();
        if n == 0 || amount > sum {
            return;
        }
        cx.trigger("c12_hub_undelegation_plan_checked");
        cx.validated();
        let floor_share = (sum - amount) / n;
        let mut removed = 0u128;
        for (i, v) in vals.iter().enumerate() {
            let p: u128 = fx.iter().map(|e| match e { Fx::Undelegate { val, amt, .. } if val == v => *amt, _ => 0 }).sum();
            removed += p;
            if p > d[i] {
                cx.viol("C12.undelegate_overdraw", "more undelegated from a validator than it holds", format!("{}: {} holds {} plan {}", a.label, v, d[i], p));
            } else if d[i] - p < d[i].min(floor_share) {
                cx.viol("C12.undelegate_below_share", "validator pushed below the even share rounded down", format!("{}: {} holds {} plan {} floor share {}", a.label, v, d[i], p, floor_share));
            }
        }
        if removed != amount {
            cx.viol("C12.undelegate_conserve", "undelegation plan does not remove exactly the requested amount", format!("{}: undelegated {} requested {} (batch {})", a.label, removed, amount, po.batch.id));
        }
    }
}

// =============================================================================================
// C09 — holders can always exit; exits do not depend on the reward plumbing

fn set_modes(c: &mut Chain, s: Mode, o: Mode) {
    c.swap_mode = s;
    c.oracle_mode = o;
}

/// every user-facing transition gives the same result whatever the swap / oracle stubs do
fn c09_pair(pre: &Chain, a: &Action, out: &Outcome, post: &Chain, cx: &mut Cx) {
    let user_facing = a.is(HUB, "bond")
        || a.is(HUB, "bond_for_st_sei")
        || a.is(HUB, "withdraw_unbonded")
        || a.is(HUB, "check_slashing")
        || a.is(REWARD, "claim_rewards")
        || a.is(BSEI, "transfer")
        || a.is(STSEI, "transfer")
        || a.is(BSEI, "send")
        || a.is(STSEI, "send")
        || a.is(BSEI, "send_from")
        || a.is(STSEI, "send_from");
    if !user_facing {
        return;
    }
    cx.trigger("c09_stub_mode_products");
    cx.validated();
    let base_fp = post.fingerprint();
    for (sm, om) in [(Mode::Fail, Mode::Fail), (Mode::Garbage, Mode::Garbage), (Mode::Fail, Mode::Garbage), (Mode::Garbage, Mode::Fail), (Mode::Ok, Mode::Fail), (Mode::Fail, Mode::Ok), (Mode::Ok, Mode::Garbage), (Mode::Garbage, Mode::Ok)] {
        let mut c = pre.clone();
        set_modes(&mut c, sm, om);
        let o2 = apply(&mut c, a);
        cx.probe(1);
        set_modes(&mut c, Mode::Ok, Mode::Ok);
        if o2.res != out.res || c.fingerprint() != base_fp {
            cx.viol(
                "C09.plumbing_independent",
                format!("{} depends on the swap/oracle contracts", action_class(a)),
                format!("{} with swap {:?} oracle {:?}: {:?} vs {:?}", a.label, sm, om, o2.res.as_ref().map(|f| f.len()).map_err(|e| e.clone()), out.res.as_ref().map(|f| f.len()).map_err(|e| e.clone())),
            );
        }
    }
}

/// "the request is undelegated by the first unbond that arrives after the epoch period": the epoch runs from the
/// last undelegation (the newest history entry, or the hub's instantiation), whatever happened in between
fn c09_epoch_step(pre: &Chain, po: &HubObs, a: &Action, out: &Outcome, qo: &HubObs, cx: &mut Cx) {
    let is_unbond = a.hub_hook().map(|h| h.0 == "unbond").unwrap_or(false);
    if !is_unbond || !out.ok() {
        return;
    }
    let last = po.last_undelegation();
    if pre.time > last && pre.time - last > po.params.epoch_period {
        cx.trigger("c09_unbond_after_epoch_checked");
        cx.validated();
        if qo.batch.id == po.batch.id || qo.hist(po.batch.id).is_none() {
            cx.viol("C09.batch_closes", "an unbond that arrived after the epoch period did not undelegate the pending batch", format!("{}: now {} last undelegation {} epoch {}: batch {} still open", a.label, pre.time, last, po.params.epoch_period, po.batch.id));
        }
    }
}

/// from every state: every holder can unbond any part, the request is undelegated by the first
/// unbond after the epoch, and the withdrawal succeeds after the unbonding period
fn c09_probe(c: &Chain, o: &HubObs, cx: &mut Cx) {
    if o.params.paused.unwrap_or(false) || o.delegated == 0 {
        return;
    }
    crate::unbondlc::c09_matured_probe(c, o, cx);
    for u in [ALICE, BOB] {
        for tok in [BSEI, STSEI] {
            let bal = o.tok_bal(tok, u);
            if bal == 0 {
                continue;
            }
            cx.trigger("c09_exit_probes");
            let mut amounts = vec![1u128, bal];
            amounts.dedup();
            for amt in amounts {
                let mut cc = c.clone();
                let bid = o.batch.id;
                let r = apply(&mut cc, &unbond(u, tok, amt));
                cx.probe(if amt == bal { 4 } else { 1 });
                if !r.ok() {
                    cx.viol("C09.can_unbond", format!("unbond of {} refused: {}", if amt == bal { "the whole balance" } else { "one unit" }, crate::unbondlc::classify_err(r.err())), format!("{} {} {} of {}: {}", u, tok, amt, bal, r.err()));
                    continue;
                }
                if amt != bal {
                    continue;
                }
                // continue the whole-balance exit to the end
                let mut o2 = HubObs::new(&cc);
                if o2.batch.id == bid {
                    let t = o2.last_undelegation() + o2.params.epoch_period + 1;
                    if t > cc.time {
                        cc.advance(t - cc.time);
                    }
                    // the first unbond that arrives after the epoch: a fresh holder's single unit (the helper bond is
                    // sized to the current stSei rate so that it mints at least a few tokens)
                    let need = mul_dec(4, o2.state.stsei_exchange_rate) + 10;
                    let rb = apply(&mut cc, &bond_st(CAROL, need));
                    let ru = apply(&mut cc, &unbond(CAROL, STSEI, 1));
                    if !rb.ok() || !ru.ok() {
                        cx.viol("C09.batch_closes", "the first unbond after the epoch period fails", format!("after {} unbonded {} {}: bond {:?} unbond {:?}", u, amt, tok, rb.res.err(), ru.res.err()));
                        continue;
                    }
                    o2 = HubObs::new(&cc);
                    if o2.batch.id == bid || o2.hist(bid).is_none() {
                        cx.viol("C09.batch_closes", "the first unbond after the epoch period did not undelegate the pending batch", format!("batch {} still open after {}'s exit of {} {}", bid, u, amt, tok));
                        continue;
                    }
                }
                let h = o2.hist(bid).cloned().unwrap();
                let t = h.time + o2.params.unbonding_period;
                if t > cc.time {
                    cc.advance(t - cc.time);
                }
                // value of all of the user's claims that are matured now (conservative lower bound)
                let mut val = 0u128;
                let mut n = 0u128;
                for (b, x, y) in o2.requests.get(u).cloned().unwrap_or_default() {
                    if let Some(hh) = o2.hist(b) {
                        if hh.time + o2.params.unbonding_period <= cc.time {
                            val += mul_dec(y, hh.stsei_withdraw_rate) + mul_dec(x, hh.bsei_withdraw_rate);
                            n += 1;
                        }
                    }
                }
                let before = cc.bal(u, USEI);
                let rw = apply(&mut cc, &withdraw(u));
                cx.count("c09_exit_completed");
                if rw.ok() {
                    if cc.bal(u, USEI) <= before {
                        cx.viol("C09.can_withdraw", "withdraw succeeded without paying", format!("{} {}", u, tok));
                    }
                } else if val >= 1 + 3 * n + (c.unbonding.len() as u128) * 2 && c.unbonding.iter().all(|x| x.balance == x.initial) {
                    // verdict by the value of the claims, not by the wording of the error
                    let what = if rw.err().contains("No withdrawable") { "claims worth at least one unit refused after the unbonding period".to_string() } else { format!("withdraw after the unbonding period fails: {}", crate::unbondlc::classify_err(rw.err())) };
                    cx.viol("C09.can_withdraw", what, format!("{} exit of {} {}: nominal value {} over {} claims: {}", u, amt, tok, val, n, rw.err()));
                }
            }
        }
    }
}
