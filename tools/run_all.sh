#!/bin/bash
# run every claimed check of one tier; print a one-line summary per property
TIER="${1:-quick}"
cd "$(dirname "$0")/.."
for id in $(python3 -c "import json;print(' '.join(c['property_id'] for c in json.load(open('MANIFEST.json'))['checks']))"); do
  out=$(./check $id $TIER 2>/dev/null); code=$?
  echo "$id exit=$code $(echo "$out" | grep -E "^$id " | tail -1)"
  echo "$out" | grep -E '^VIOLATION' | head -5
done
