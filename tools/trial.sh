#!/bin/bash
# tools/trial.sh <patch.diff|none> <Cxx> [<Cxx> ...]
# Seeded-defect trial on a scratch copy: /tmp/trial/repo is a git worktree of /repo's HEAD, /tmp/trial/verif a copy
# of the harness (HARNESS=<dir> picks a development copy) whose path dependencies point at it. /repo itself is never touched. TIER=quick|thorough.
set -u
T="${TRIAL_DIR:-/tmp/trial}"
P="$1"; shift
[ "$P" != none ] && P="$(readlink -f "$P")"
if [ ! -d $T/repo ]; then mkdir -p $T && git -C /repo worktree add -q --detach $T/repo HEAD || exit 2; fi
git -C $T/repo checkout -q --detach "$(git -C /repo rev-parse HEAD)" 2>/dev/null
git -C $T/repo checkout -q -- . ; git -C $T/repo clean -fdq
mkdir -p $T/verif/harness $T/verif/evidence $T/verif/replays
rsync -a --delete --exclude target "${HARNESS:-/verif/harness}"/ $T/verif/harness/
cp /verif/known_findings.json $T/verif/
sed -i "s#/repo/#$T/repo/#g" $T/verif/harness/Cargo.toml
sed -i "s#/verif/target#$T/target#" $T/verif/harness/.cargo/config.toml
if [ "$P" != none ]; then ( cd $T/repo && git apply "$P" ) || { echo "trial: patch does not apply"; exit 2; }; fi
( cd $T/verif/harness && CARGO_NET_OFFLINE=true cargo build --release --offline > $T/build.log 2>&1 ) || { echo "trial: BUILD FAILED"; grep -E '^error' -A8 $T/build.log | head -30; exit 2; }
TIER="${TIER:-quick}"
for id in "$@"; do
  out=$(KRP_VERIF_DIR=$T/verif $T/target/release/krpmc check "$id" --tier "$TIER" 2>&1); code=$?
  v=$(echo "$out" | grep -cE '^VIOLATION')
  sig=$(echo "$out" | grep -E 'violation oracle=' | sed -E 's/.*oracle=([^ ]+) sig=(.*) depth=([0-9]+).*/\1 [\2] @\3/' | head -3 | tr '\n' ';')
  echo "$id exit=$code violations=$v $sig"
done
