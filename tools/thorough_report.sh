#!/bin/bash
# tools/thorough_report.sh [ids...]: runs the thorough tier of every check against /repo (evidence goes to a scratch
# directory so that the committed quick-tier evidence stays reproducible) and writes THOROUGH.md
cd /verif
ids="$@"; [ -z "$ids" ] && ids=$(python3 -c "import json;print(' '.join(c['property_id'] for c in json.load(open('MANIFEST.json'))['checks']))")
S=/tmp/thv; mkdir -p $S/evidence $S/replays; cp known_findings.json $S/
OUT=THOROUGH.md
[ -f $OUT ] || { echo "# Thorough-tier runs"; echo; echo "Run by tools/thorough_report.sh on this sandbox (16 cores). exit 0 = held on everything explored (known findings excepted)."; echo; echo "| property | exit | states | transitions | probe executions | exhaustive to target depth | violations | known findings reproduced | wall | date |"; echo "|---|---|---|---|---|---|---|---|---|---|"; } > $OUT
for id in $ids; do
  out=$(KRP_VERIF_DIR=$S ./target/release/krpmc check $id --tier thorough 2>&1); code=$?
  python3 - "$id" "$code" "$S/evidence/$id.json" >> $OUT <<'PY'
import json,sys,datetime
i,code,f=sys.argv[1:4]
try:
    e=json.load(open(f)); c=e['coverage']
    caps=[j['cap_hit'] for j in c['jobs'] if j.get('cap_hit')]
    depths=','.join('%s/%s'%(j['depth_completed'],j['depth_target']) for j in c['jobs'])
    print('| %s | %s | %d | %d | %d | %s (depths %s)%s | %d | %d | %.0f s | %s |'%(i,code,c['states'],c['transitions'],c.get('probe_executions_on_clones',0),c['exhaustive'],depths,(' — '+'; '.join(caps)) if caps else '',e.get('violations',0),e.get('known_findings_reproduced',0),e['wall_s'],datetime.date.today()))
except Exception as x:
    print('| %s | %s | (no evidence: %s) |'%(i,code,x))
PY
  echo "$id done exit=$code"
done
