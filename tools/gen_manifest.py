#!/usr/bin/env python3
"""Regenerates /verif/MANIFEST.json from the table below (kept next to the code so the two stay in step)."""
import json, os
HERE = os.path.dirname(os.path.dirname(os.path.abspath(__file__)))
ids = [json.loads(l)["id"] for l in open(os.path.join(HERE, "properties.jsonl"))]

TB = ("Trusted base: the chain model of DESIGN.md section 3.1 (bank, staking with begin-block maturity, distribution, "
      "depth-first wasm dispatch with whole-transaction rollback, zero-coin bank sends rejected) and the stub swap/oracle; "
      "the contracts themselves are the real Rust entry points linked from /repo's working tree. Bounds: depth D, deviation "
      "budget F, principals and amount lattice as reported in the evidence file; envelope of DESIGN.md section 4.")

CLAIMED = {
 "C18": ("5 (C18)", "Per token (bSei on cw20-legacy, stSei on cw20-base 0.16) on the integrated deployment: start states are all instantiate messages whose initial_balances is a list of length 0..=3 over {alice,bob} x {0,1,5} (259 messages, repeated addresses included), explored 2-3 steps; plus every sequence of <= D (4 quick, 5 thorough) calls of every cw20 entry point by holders, a spender, the hub and strangers with amounts 0/1/2/all/all+1 and every expiration shape around the current block. State oracle: sum of all account balances = total supply, minter = hub, Allowance query <= owner's grants (ledger in the state key). Step oracles: supply changes only by the minted/burned amounts, Mint/Burn only by the hub, allowance spends within the unexpired grant and debited exactly, only the owner raises an allowance, every stSei burn and bSei allowance burn executes a hub CheckSlashing in the same transaction.",
         "explicit-state BFS of the real token contracts over instantiate shapes and entry points, allowance reference ledger"),
 "C19": ("5 (C19)", "Hub-core exploration (D=4 quick, 5 thorough) with reward accrual of 1..4e17 coins of either denom on either validator under 2 (quick) / 5 (thorough) keeper-rate x price configurations; UpdateGlobalIndex by the updater and the one issued by the registry during RemoveValidator are available in every state; every execution is checked against the bank, staking and distribution ledgers (all rewards withdrawn, nothing pending or left in the dispatcher, hub liquid balance / token balances / supplies / unbond claims untouched, keeper gets floor(share x rate), delegated grows by the re-bonded amount, stSei rate = (pool + re-bonded)/claims exactly, bSei rate untouched, bSei holders' exact claimable total grows by the delivered coins within dust). Failures through the zero-coin sends of F1 are known findings.",
         "explicit-state BFS of the real contracts with reward-accrual events, ledger step oracle on every index update"),
 "C14": ("5 (C14)", "Every sequence of <= D (4 quick, 5 thorough) bSei operations (mint, transfers incl. to self, send-to-hub unbond/convert, allowance-based transfer/send/burn), reward deliveries (7, 1000; and 1, 1e18 against a 9e17 holder) and claims by 2-3 holders plus a spender, including deliveries while nobody holds bSei. In every distinct state the exact accrued reward of every holder (Holders + State queries, 1e-18 fixed point, 256-bit) is summed and compared with the recorded and the actual reward balance (solvent, recorded <= actual, stranded <= updates + 1 units, claimed <= delivered); every claim must pay exactly the whole-unit part, keep the fraction and fail only when less than one unit accrued.",
         "explicit-state BFS of the real contracts, exact fixed-point recomputation in every state"),
 "C15": ("5 (C15)", "Four exhaustive bounded explorations on the real contracts: (i) a reference accrual ledger carried in the state key, updated only at deliveries by balance x distributed / total, bounds every holder's accrued + claimed reward to within a few 1e-18 units; (ii) frame oracle: every non-delivery transition leaves every holder's exact accrued reward unchanged (own claim excepted), so rewards never travel with tokens and late tokens earn nothing; (iii) commutation diamonds: in every state to depth 2/3 every pair of enabled operations of different actors is executed in both orders on clones and the reward contract's storage must be byte-identical; (iv) product exploration: two worlds (alice's holding in one account / split over two) explored in lock-step to depth 5-7 under identical operations of everyone else, accruals must be equal.",
         "explicit-state BFS with reference ledger, commutation diamonds on clones of every state, and lock-step product exploration"),
 "C16": ("5 (C16)", "Every sequence of <= D (3-4 quick, 4-6 thorough) calls of every bSei entry point (mint via bond, burn via unbond/convert, transfer incl. to self, send to hub with both hooks, send to a non-hub contract, increase/decrease allowance, TransferFrom incl. recipient = owner and zero amount, SendFrom, BurnFrom) by holders, a spender and the hub from a token without initial balances; in every distinct state the reward contract's full Holders list is compared with the token's AllAccounts/Balance for every address, and the totals are compared.",
         "explicit-state BFS of the real contracts, mirror invariant in every state"),
 "C05": ("5 (C05)", "Start states are all 12 (peg_recovery_fee, er_threshold) configurations x 2 slash depths of a two-pool deployment (plus a 1e15-scaled instance with 0.01% and 50% slashes); every sequence of <= D (3 quick, 5 thorough) fee-path transactions (bond, unbond bSei, convert both directions; amounts 1, half, all, 100, 5000) by two users is executed and each successful one is compared with the exact no-fee amount (no fee at or above the threshold, 0 <= fee <= basis x peg_recovery_fee) and with the post-state peg (bSei backing <= claims + 2 whenever the operation started below 1).",
         "explicit-state BFS of the real contracts over fee configurations, exact fee recomputation"),
 "C12": ("5 (C12)", "Exhaustive input enumeration through the two public planning functions: every validator list of length 0..=4 (5 thorough) with delegations 0..=5 (7) in every order, every amount 0..=sum+6, and the same box scaled by 1e6+3, 1e12+7 and ~1e18/(L*V) with +-1 perturbations (~5e5 calls quick, ~4e7 thorough), each under a 2 s non-termination watchdog, each checked for conservation, no stake to validators above the even share, no lift above ceil(share), no push below floor(share), error iff empty list or excessive request.",
         "bounded-exhaustive input enumeration of the real planning functions (no sampling)"),
 "C17": ("5 (C17)", "Every tuple of (dispatcher usei balance, kusd balance, stSei bonded, bSei bonded, oracle price over 12 orders of magnitude, keeper rate incl. 0, 1e-18, 1-1e-18, 1) of the stated box inside the 1e18 envelope (6.8e4 tuples quick, ~4e5 thorough, plus a third-swap-denom box) is run through the real SwapToRewardDenom and DispatchRewards entry points on the integrated deployment; offer <= held, stSei share = total x st/(st+b) within stated rounding, keeper gets exactly floor(balance x rate), remainder fully forwarded, nothing kept, no zero-coin send. A BFS over dispatcher configuration updates decides 'keeper rate never above 1'. The three zero-coin call sites are known findings (F1).",
         "bounded-exhaustive input enumeration through the real entry points on the chain model, plus config-update BFS"),
 "C20": ("5 (C20)", "BFS from every instantiate message (in-range, boundary 1, 1+1e-18, 2) over every UpdateParams/UpdateConfig message with every presence combination of optional fields and in-range/boundary/out-of-range values, UpdateSwapDenom add/remove/duplicate, UpdateSwapContract, UpdateOracleContract, reward and registry UpdateConfig, by owner and non-owner; the hub parameter space is explored to its fixpoint (about 3.5e6 transitions), the dispatcher to depth 3/4. Every accepted update is compared field by field (absent keeps, present stored, threshold clamped, pause flag as defined), every state is range-checked, the two fixed denoms never change, non-owner updates are rejected.",
         "explicit-state BFS to fixpoint over the real update handlers, field-by-field oracle"),
 "C01": ("5 (C01)", "Every sequence of <= D unbond/withdraw/time actions (D=5 quick, 7 thorough; plus bond/convert in thorough) with <= F slashing-of-unbonding, bonded-slash and rogue-transfer deviations is executed for 2-3 users and both tokens, plus a deeper one-token 'dust group' scenario (D=6/10) that puts zero-valued batches into a slashed release group. State oracle: liquid balance >= sum of released claims. Step oracles: a release is valued <= the coins that arrived (and >= arrived minus dust when clean), a withdraw pays exactly the recorded share in one send and removes exactly the paid claims. Probe in every distinct state: all users with matured claims withdraw on clones in every order (identical payouts, refusals only for sub-unit claims, second withdraw pays nothing).",
         "explicit-state BFS of the real contracts with fault budget; state/step oracles plus exhaustive withdraw-order probes on clones of every state"),
 "C07": ("5 (C07)", "Every sequence of <= D unbonds (cw20 Send and allowance-based SendFrom, both tokens mixed in a batch, 3 amounts), withdraws, forged Receive hooks and time jumps for 2-3 users plus a spender. A reference claim ledger carried inside the state key is compared in every distinct state with UnbondRequests of every known address, CurrentBatch totals, AllHistory totals (ledger + paid == history) and every AllHistory page; every accepted unbond burns exactly the tokens sent and credits only the cw20 sender within [amount - peg fee, amount].",
         "explicit-state BFS of the real contracts with a reference-model ledger in the state key"),
 "C08": ("5 (C08)", "For each (epoch, unbonding) configuration in {(10,30),(3,3),(0,1)} (+(1,2),(30,10) thorough) every sequence of <= D unbond/withdraw actions interleaved with the full time-region alphabet (every critical instant c-1, c, c+1) is executed; every transition compares the unbond history before and after (released entries frozen, nothing disappears, consecutive numbering, close only after > epoch, release and payout only at time + unbonding_period <= now, undelegated amount = requests at the recorded rates).",
         "explicit-state BFS of the real contracts over period configurations with a time-region alphabet"),
 "C02": ("5 (C02)", "Every sequence of <= D hub transactions / environment events (D=4 quick, 6 thorough; F<=1/2 slashing or rogue-transfer deviations) from curated seed states is executed on the real contracts; on every transition the effects log is compared with the staking/bank ledgers: delegate messages sum to the payment and target registered validators, books fall by exactly the undelegated amount, stored books <= delegations after every pricing op, liquid balance untouched by non-withdraw ops. Exhaustive within the stated alphabet and depth, which is the right level for a history-quantified ledger invariant.",
         "explicit-state BFS of the real contracts on a chain model, effects-log step oracles"),
 "C03": ("5 (C03)", "In every distinct reachable state of the hub-core exploration the State query is recomputed from totals, token supplies and pending requests of that same state; every successful bond, bond-for-stSei, convert (both directions) and batch-closing unbond is compared with the exact floor arithmetic of the property (256-bit integers), including a 1e15-scaled instance with peg fee.",
         "explicit-state BFS of the real contracts, exact recomputation oracles on every state and transition"),
 "C04": ("5 (C04)", "Every non-slash transition of the hub-core exploration (peg fee off and on, with reward re-bonding, transfers and registry operations) compares both exchange rates reported by the State query before and after with exact Decimal comparison; re-bonding must raise the stSei rate and mint nothing.",
         "explicit-state BFS of the real contracts, rate-monotonicity step oracle"),
 "C06": ("5 (C06)", "Hub-core exploration with a slashing budget (F=2 quick, 3 thorough; fractions 1/10, 1/2, 1/10000; one- and two-pool seeds): in every distinct state the recognised pools (State query) must sum to the surviving delegation and match the exact pro-rata split within 2 units; every pricing transaction must store exactly the recognised pools plus its own delta, and nothing changes when delegation >= books.",
         "explicit-state BFS of the real contracts with fault (slashing) budget, exact pro-rata oracles"),
 "C13": ("5 (C13)", "Hub-core exploration with AddValidator/RemoveValidator enabled in every state (pending rewards, in-flight batches, blocked redelegation after an earlier removal, re-addition, single-validator registry): every owner removal is checked against the staking ledger (whole delegation redelegated to registered validators, nothing left, total stake changes only by re-bonded rewards, delegated-minus-booked unchanged, last validator never removed).",
         "explicit-state BFS of the real contracts, staking-ledger step oracle"),
}

checks = []
for i in ids:
    if i in CLAIMED:
        ref, text, tech = CLAIMED[i]
        checks.append({
            "property_id": i,
            "quick_cmd": f"./check {i} quick",
            "thorough_cmd": f"./check {i} thorough",
            "evidence_file": f"/verif/evidence/{i}.json",
            "replay_cmd_template": f"./check {i} --replay {{path}}",
            "engine": "krpmc",
            "level_claimed": {"category": "model_checking", "text": text, "design_ref": "DESIGN.md section " + ref},
            "level_note": TB,
            "technique": tech,
        })
m = {
 "version": 1,
 "setup_cmd": "cd /verif/harness && CARGO_NET_OFFLINE=true CARGO_TARGET_DIR=/verif/target cargo build --release --offline",
 "hooks": {"guard": "krp_verif",
           "enable": "no source hooks exist: the harness links the contract crates from /repo's working tree by path (features=[\"library\"]) and drives the public instantiate/execute/query entry points",
           "baseline_off_cmd": "cd /repo && cargo test --workspace --no-fail-fast --offline",
           "source_commits": [], "add_only": True},
 "engines": [{"name": "krpmc", "path": "/verif/harness", "serves_properties": sorted(CLAIMED),
              "kind_free_text": "hand-written layered parallel explicit-state BFS explorer (rayon + dashmap) over the real contract code on a deterministic chain simulator; input-box enumeration for pure kernels"}],
 "checks": checks,
 "notes": "All checks: exit 0 held / exit 1 VIOLATION line / exit 2 machinery failure (build error, vacuous run, nondeterminism). Known findings: /verif/known_findings.json.",
 "not_applicable": [{"property_id": i, "reason": "check not built yet (planned in DESIGN.md section 5); will be claimed once its check exists"} for i in ids if i not in CLAIMED],
}
json.dump(m, open(os.path.join(HERE, "MANIFEST.json"), "w"), indent=1)
print("claimed", len(checks), "not_applicable", len(m["not_applicable"]))
