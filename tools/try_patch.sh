#!/bin/bash
# tools/try_patch.sh <patch.diff> <Cxx> [<Cxx> ...]
# Applies a patch to /repo, runs the quick checks of the named properties, and always restores /repo.
# Prints one line per property: "<id> exit=<code> <VIOLATION lines...>"
set -u
P="$(readlink -f "$1")"; shift
cd /repo || exit 2
if [ -n "$(git status --porcelain --untracked-files=no)" ]; then echo "try_patch: /repo is not clean" >&2; exit 2; fi
rm -rf /tmp/try_patch_evidence && cp -a /verif/evidence /tmp/try_patch_evidence
# /repo is restored and the evidence files of the unchanged tree are put back whatever happens
restore() { git -C /repo checkout -q -- . ; git -C /repo clean -fdq -- contracts packages 2>/dev/null; rm -rf /verif/evidence && mv /tmp/try_patch_evidence /verif/evidence; }
trap restore EXIT
if ! git apply "$P"; then echo "try_patch: patch does not apply" >&2; exit 2; fi
TIER="${TIER:-quick}"
for id in "$@"; do
  out=$(/verif/check "$id" "$TIER" 2>&1); code=$?
  v=$(echo "$out" | grep -E '^VIOLATION' | wc -l)
  sig=$(echo "$out" | grep -E 'violation oracle=' | sed -E 's/.*oracle=([^ ]+) sig=(.*) depth=([0-9]+).*/\1[\2]@\3/' | head -4 | tr '\n' ';')
  echo "$id exit=$code violations=$v $sig"
done
