#!/bin/bash
# tools/confirm_seeded.sh <dir with mN.diff / mN_demo.diff> <N>
# Confirms a seeded defect in a scratch worktree (/tmp/confirm, own target dir):
#  (b) HEAD + mN.diff: the repository's suite passes unedited; (c) HEAD + demo: passes; (d) HEAD + mN.diff + demo: fails.
set -u
D="$(readlink -f "$1")"; N="$2"; W=/tmp/confirm
if [ ! -d $W ]; then git -C /repo worktree add -q --detach $W HEAD || exit 2; fi
git -C $W checkout -q --detach "$(git -C /repo rev-parse HEAD)"; git -C $W checkout -q -- . ; git -C $W clean -fdq -e target
export CARGO_TARGET_DIR=$W/target CARGO_NET_OFFLINE=true
suite() { ( cd $W && cargo test --workspace --no-fail-fast --offline -j 8 2>&1 | grep -E '^test result' | awk '{p+=$4; f+=$6} END {print p" passed "f" failed"}' ); }
cd $W
git apply "$D/m$N.diff" || { echo "m$N.diff does not apply"; exit 2; }
B=$(suite)
git apply "$D/m${N}_demo.diff" || { echo "demo does not apply on top of the change"; }
DD=$(suite)
git checkout -q -- . ; git clean -fdq -e target
git apply "$D/m${N}_demo.diff"
C=$(suite)
git checkout -q -- . ; git clean -fdq -e target
echo "$(basename $D)/m$N  (b) change only: $B | (c) demo only: $C | (d) change+demo: $DD"
