#!/bin/bash
# tools/seeded_sweep.sh [ids...]: runs the quick check of the broken property against every seeded defect
# (on a scratch copy, see trial.sh) and writes seeded/RESULTS.md
cd /verif
ids="$@"; [ -z "$ids" ] && ids=$(ls seeded | grep -E '^C[0-9]+-m[0-9]+$')
OUT=seeded/RESULTS.md
{
echo "# Seeded-defect trials"
echo
echo "Each row: the quick check of the property the change was written to break, run by tools/trial.sh on a scratch copy of /repo HEAD + patch.diff."
echo "exit=1 with VIOLATION lines means detected. Harness commit: $(git rev-parse --short HEAD); repo HEAD: $(git -C /repo rev-parse --short HEAD); $(date -u +%FT%TZ)."
echo
echo "| seeded | property | result | first oracles that fired (oracle [signature] @depth) |"
echo "|---|---|---|---|"
} > $OUT
for id in $ids; do
  p=${id%%-*}
  r=$(tools/trial.sh seeded/$id/patch.diff $p 2>&1 | tail -1)
  code=$(echo "$r" | sed -E 's/.*exit=([0-9]+).*/\1/')
  sig=$(echo "$r" | sed -E 's/^[^ ]+ exit=[0-9]+ violations=[0-9]+ ?//' | tr '|' '/')
  res="MISSED"; [ "$code" = 1 ] && res="detected"; [ "$code" = 2 ] && res="machinery exit"
  echo "| $id | $p | $res | $sig |" >> $OUT
  echo "$id $r"
done
