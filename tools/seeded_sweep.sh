#!/bin/bash
# tools/seeded_sweep.sh [ids...]: runs the quick check of the broken property against every seeded defect
# (on a scratch copy, see trial.sh) and writes seeded/RESULTS.md
cd /verif
ids="$@"; [ -z "$ids" ] && ids=$(ls seeded | grep -E '^C[0-9]+-m[0-9]+$')
OUT="${OUT:-seeded/RESULTS.md}"
{
echo "# Seeded-defect trials"
echo
echo "Each row: the quick check of the property the change was written to break, run by tools/trial.sh on a scratch copy of /repo HEAD + patch.diff."
echo "exit=1 with VIOLATION lines means detected. Harness commit: $(git rev-parse --short HEAD); repo HEAD: $(git -C /repo rev-parse --short HEAD); $(date -u +%FT%TZ)."
echo
echo "| seeded | property | result | first oracles that fired (oracle [signature] @depth) |"
echo "|---|---|---|---|"
} > $OUT
for id in $ids; do
  p=${id%%-*}
  props=$(python3 -c "import json;d=json.load(open('seeded/$id/meta.json'));print(' '.join(d.get('check_with',['$p'])))")
  out=$(tools/trial.sh seeded/$id/patch.diff $props 2>&1 | grep -E '^C[0-9]+ exit=')
  res="MISSED"; sig=""; by=""
  while read -r line; do
    code=$(echo "$line" | sed -E 's/.*exit=([0-9]+).*/\1/'); pid=${line%% *}
    if [ "$code" = 1 ]; then res="detected"; by="$by $pid"; [ -z "$sig" ] && sig=$(echo "$line" | sed -E 's/^[^ ]+ exit=[0-9]+ violations=[0-9]+ ?//' | tr '|' '/'); fi
  done <<< "$out"
  note=$(python3 -c "import json;d=json.load(open('seeded/$id/meta.json'));print(d.get('expected_detection',''))")
  [ -n "$note" ] && [ "$res" = MISSED ] && res="not reported ($note)"
  echo "| $id | $p | $res${by:+ by$by} | $sig |" >> $OUT
  echo "$id $res $by"
done
